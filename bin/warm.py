#!/usr/bin/env python3
import sys, os, importlib.util, importlib.machinery
here = os.path.dirname(os.path.abspath(__file__))
sys.path.insert(0, here)
spec = importlib.util.spec_from_loader("check", importlib.machinery.SourceFileLoader("check", os.path.join(here, "check")))
check = importlib.util.module_from_spec(spec)
spec.loader.exec_module(check)
from checks_table import CHECKS
from concurrent.futures import ThreadPoolExecutor
cfgs = sorted({h.get("cfg", "asan") for c in CHECKS.values() for h in c["harnesses"].values()})
libs = {}
for cfg in cfgs:
    d = check.buildlib(cfg)
    if not d:
        print("setup: library build failed for", cfg); sys.exit(1)
    libs[cfg] = d
jobs = [(pid, hn, h) for pid, c in CHECKS.items() for hn, h in c["harnesses"].items()]
def one(j):
    pid, hn, h = j
    exe = check.build_harness(h, libs[h.get("cfg", "asan")])
    return (pid, hn, exe)
bad = 0
with ThreadPoolExecutor(max_workers=12) as ex:
    for pid, hn, exe in ex.map(one, jobs):
        print("setup:", pid, hn, "->", "ok" if exe else "FAILED")
        if not exe: bad += 1
sys.exit(1 if bad else 0)
