#!/usr/bin/env python3
"""Regenerates MANIFEST.json from bin/checks_table.py (single source of truth)."""
import json, os, sys, subprocess
here = os.path.dirname(os.path.abspath(__file__))
sys.path.insert(0, here)
from checks_table import CHECKS, NOT_APPLICABLE
V = os.path.dirname(here)
props = [json.loads(l)["id"] for l in open(os.path.join(V, "properties.jsonl"))]
hooks_commits = subprocess.run(["git", "-C", "/repo", "log", "--format=%H", "--grep=^verif:"], stdout=subprocess.PIPE, text=True).stdout.split()
m = {
    "version": 1,
    "setup_cmd": "bin/setup",
    "hooks": {
        "guard": "OPNMIDI_VERIF",
        "enable": "bin/buildlib passes -DOPNMIDI_VERIF in CMAKE_C_FLAGS/CMAKE_CXX_FLAGS to the repository's own CMake build (clang, sanitizers); with the define absent the sources compile exactly as before",
        "baseline_off_cmd": "bin/baseline_off",
        "source_commits": hooks_commits,
        "add_only": True,
    },
    "engines": [
        {"name": "rapidcheck", "path": "harness/common/rc_util.hpp", "serves_properties": sorted(k for k, c in CHECKS.items() if any(h.get("kind", "rc") == "rc" for h in c["harnesses"].values())), "kind_free_text": "structured generation + shrinking of cases / command sequences; oracle inside the property"},
        {"name": "libFuzzer", "path": "harness/", "serves_properties": sorted(k for k, c in CHECKS.items() if any(h.get("kind") == "fuzz" for h in c["harnesses"].values())), "kind_free_text": "coverage-guided byte-level fuzzing with the semantic oracle inside the target, ASan+UBSan"},
        {"name": "driver", "path": "bin/check", "serves_properties": sorted(CHECKS.keys()), "kind_free_text": "rebuilds /repo working tree (bin/buildlib), runs stages in parallel, triages 3x, writes evidence"},
    ],
    "checks": [],
    "notes": "See DESIGN.md. exit 0 = held on everything explored; exit 1 + VIOLATION line; exit 2 = inconclusive run (never silent).",
    "not_applicable": [],
}
for pid in props:
    if pid in CHECKS:
        c = CHECKS[pid]; mm = c["manifest"]
        m["checks"].append({
            "property_id": pid,
            "quick_cmd": "bin/check %s --tier quick" % pid,
            "thorough_cmd": "bin/check %s --tier thorough" % pid,
            "evidence_file": "evidence/%s.json" % pid,
            "replay_cmd_template": "bin/check %s --replay {path}" % pid,
            "engine": mm.get("engine", "rapidcheck"),
            "level_claimed": {"category": "exploration", "text": mm["level_text"], "design_ref": mm.get("design_ref", "DESIGN.md section 3, " + pid)},
            "level_note": mm["level_note"],
            "technique": mm["technique"],
        })
    else:
        m["not_applicable"].append({"property_id": pid, "reason": NOT_APPLICABLE.get(pid, "check not built yet in this round; the property is not claimed until its harness exists and has been validated")})
json.dump(m, open(os.path.join(V, "MANIFEST.json"), "w"), indent=1)
print("MANIFEST.json: %d checks, %d not_applicable" % (len(m["checks"]), len(m["not_applicable"])))
