"""Declarative table of checks: harnesses, stages per tier, non-triviality rule, assumptions."""

CHECKS = {}
NOT_APPLICABLE = {}

CHECKS["C16"] = dict(
    harnesses={"pbt": dict(src="c16_bankmap.cpp", cfg="asan", kind="rc")},
    quick=[
        dict(name="pbt", harness="pbt", workers=8, args=["--n", "1500"]),
        dict(name="enum", harness="pbt", workers=8, args=["--mode", "enum", "--depth", "4"]),
    ],
    thorough=[
        dict(name="pbt", harness="pbt", workers=16, args=["--n", "40000"], timeout=7200),
        dict(name="enum", harness="pbt", workers=16, args=["--mode", "enum", "--depth", "5"], timeout=7200),
    ],
    rule="pbt: rapidcheck command sequences (create/createRt/lookup/remove/reserve/iterate/getId/setInstrument/getInstrument/"
         "loadBankFile/invalid-id, <=60 commands, keys 70% from a pool colliding in the 256-bucket hash) run against a std::map model; "
         "a case is non-trivial when a collision chain of length >=2 existed in one bucket AND a slot was reused after a Remove, or a CreateRt "
         "was refused for lack of capacity; distinct = distinct FNV-64 of the serialised command list. "
         "enum: every sequence of length 1..depth over a 28-symbol alphabet on a 6-key/2-bucket universe; non-trivial = a chain>=2 existed "
         "and a Remove happened, or CreateRt was refused (distinct by construction).",
    assumptions=[
        "only live handles are used (a handle of a removed bank or from before a bank-file load is caller misuse)",
        "bank ids in generated bank files stay within 0..127 (the key space named by the property)",
        "enum mode resets the instance's map by assigning a default-constructed map between sequences; every operation goes through the public API",
        "'never allocates' is observed through the ASan malloc hook around opn2_getBank(...CreateRt)",
    ],
    min_nontrivial={"quick": 200, "thorough": 2000},
    manifest=dict(
        technique="model-based property testing (rapidcheck command sequences vs std::map model) + bounded-exhaustive enumeration over a 6-key universe",
        level_text="Generated histories of bank-API calls are executed on a live instance and on a std::map reference model; every return value, "
                   "lookup, iteration, identifier, capacity and instrument read-back is compared after every step. Exhaustive for all sequences "
                   "up to length 4 (quick) / 5 (thorough) over a 28-symbol alphabet; sampled beyond that. Not a proof for longer histories.",
        level_note="Trusts ASan (freed/foreign slot use), the ASan malloc hook for 'never allocates', and the harness's independent WOPN writer for bank-file loads.",
    ),
)
