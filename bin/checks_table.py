"""Declarative table of checks: harnesses, stages per tier, non-triviality rule, assumptions."""

CHECKS = {}
NOT_APPLICABLE = {}

CHECKS["C16"] = dict(
    harnesses={"pbt": dict(src="c16_bankmap.cpp", cfg="asan", kind="rc")},
    quick=[
        dict(name="pbt", harness="pbt", workers=8, args=["--n", "1500"]),
        dict(name="enum", harness="pbt", workers=8, args=["--mode", "enum", "--depth", "4"]),
    ],
    thorough=[
        dict(name="pbt", harness="pbt", workers=16, args=["--n", "40000"], timeout=7200),
        dict(name="enum", harness="pbt", workers=16, args=["--mode", "enum", "--depth", "5"], timeout=7200),
    ],
    rule="pbt: rapidcheck command sequences (create/createRt/lookup/remove/reserve/iterate/getId/setInstrument/getInstrument/"
         "loadBankFile/invalid-id, <=60 commands, keys 70% from a pool colliding in the 256-bucket hash) run against a std::map model; "
         "a case is non-trivial when a collision chain of length >=2 existed in one bucket AND a slot was reused after a Remove, or a CreateRt "
         "was refused for lack of capacity; distinct = distinct FNV-64 of the serialised command list. "
         "enum: every sequence of length 1..depth over a 28-symbol alphabet on a 6-key/2-bucket universe; non-trivial = a chain>=2 existed "
         "and a Remove happened, or CreateRt was refused (distinct by construction).",
    assumptions=[
        "only live handles are used (a handle of a removed bank or from before a bank-file load is caller misuse)",
        "bank ids in generated bank files stay within 0..127 (the key space named by the property)",
        "enum mode resets the instance's map by assigning a default-constructed map between sequences; every operation goes through the public API",
        "'never allocates' is observed through the ASan malloc hook around opn2_getBank(...CreateRt)",
    ],
    min_nontrivial={"quick": 200, "thorough": 2000},
    manifest=dict(
        technique="model-based property testing (rapidcheck command sequences vs std::map model) + bounded-exhaustive enumeration over a 6-key universe",
        level_text="Generated histories of bank-API calls are executed on a live instance and on a std::map reference model; every return value, "
                   "lookup, iteration, identifier, capacity and instrument read-back is compared after every step. Exhaustive for all sequences "
                   "up to length 4 (quick) / 5 (thorough) over a 28-symbol alphabet; sampled beyond that. Not a proof for longer histories.",
        level_note="Trusts ASan (freed/foreign slot use), the ASan malloc hook for 'never allocates', and the harness's independent WOPN writer for bank-file loads.",
    ),
)

CHECKS["C15"] = dict(
    harnesses={"pbt": dict(src="c15_wopn.cpp", cfg="asan", kind="rc"),
               "fuzz": dict(src="c15_wopn.cpp", cfg="asan", kind="fuzz", extra_flags=["-DVERIF_FUZZ"])},
    quick=[
        dict(name="pbt", harness="pbt", workers=8, args=["--n", "1500", "--maxbanks", "12"]),
        dict(name="fuzz", harness="fuzz", workers=6, empty_corpus_workers=2, args=["-runs=12000", "-max_len=40000", "-len_control=0"]),
    ],
    thorough=[
        dict(name="pbt", harness="pbt", workers=16, args=["--n", "6000", "--maxbanks", "64"], timeout=7200),
        dict(name="fuzz", harness="fuzz", workers=16, empty_corpus_workers=4, args=["-max_total_time=600", "-max_len=60000", "-len_control=0"], timeout=3600),
    ],
    rule="pbt: generated WOPNFile/OPNIFile values (1..N melodic and percussion banks, names of length 0/1/max-1/max with optional bytes after the NUL, "
         "boundary-biased field values, blank flags, background instruments from a generated seed) saved as v1, v2 and 'latest' into exact-size, "
         "oversized(canary) and too-small exact heap blocks, reloaded and compared with the carried projection written from docs/wopn specification.txt; "
         "non-trivial = a name within 1 byte of its field size, or >2 banks, or a blank entry; distinct by FNV-64 of the serialised value. "
         "fuzz: libFuzzer byte strings through both loaders; non-trivial = accepted by a loader (then save/reload fixed-point is checked inside the target).",
    assumptions=[
        "values have at least one melodic and one percussion bank (the in-memory representation cannot hold zero: WOPN_Init substitutes one blank bank)",
        "instrument names compare as C strings of at most 31 bytes, bank names of at most 32 bytes (the loader terminates them)",
        "for version-1 values identity is judged on the fields the v1 format carries (the property's own exception list)",
    ],
    min_nontrivial={"quick": 200, "thorough": 2000},
    manifest=dict(
        engine="rapidcheck + libFuzzer",
        technique="round-trip property testing over generated values (rapidcheck) and accepted byte strings (libFuzzer) against a projection oracle, with exact-size ASan-guarded destinations",
        level_text="Round trip save/load is compared field by field against an independently written 'carried projection' for versions 1, 2 and latest; "
                   "destinations of every interesting size are exact heap blocks so ASan sees a single byte of overrun; accepted fuzz inputs must be fixed points. Sampled, not exhaustive.",
        level_note="Trusts ASan red zones as the overrun detector, and the harness's reading of the WOPN specification for what each version carries.",
    ),
)

CHECKS["C04"] = dict(
    harnesses={"pbt": dict(src="c04_voices.cpp", cfg="asan", kind="rc")},
    quick=[
        dict(name="pbt", harness="pbt", workers=8, args=["--n", "1200", "--maxlen", "120"]),
        dict(name="enum", harness="pbt", workers=8, args=["--mode", "enum", "--depth", "3"]),
    ],
    thorough=[
        dict(name="pbt", harness="pbt", workers=16, args=["--n", "30000", "--maxlen", "200"], timeout=7200),
        dict(name="enum", harness="pbt", workers=16, args=["--mode", "enum", "--depth", "4"], timeout=7200),
    ],
    rule="pbt: rapidcheck op sequences (profile 'voices': note on/off, CC64/66/120/121/123 and others, panic, reset-state, program/bank changes, bends, "
         "time advance, arpeggio on/off, chip-count/emulator/chip-type changes, bank reload, reset, SysEx mode switches, blank/unblank instruments, banks created and removed through the bank API while notes sound (CC0/CC32 select them), "
         "loading+ticking a small SMF) on 1-2 chips with few channels/keys so polyphony overflows; the six invariants I1-I6 are evaluated on a snapshot "
         "of the private tables and the tap-reconstructed key state after EVERY op. Non-trivial = a note was accepted while every chip channel was busy "
         "(eviction/arpeggio/evacuation) or a pedal/sostenuto-held user existed; distinct by FNV-64 of the serialised case. "
         "enum: all sequences of the stated length over a 27-symbol alphabet (2 MIDI channels, 3 keys, 1 chip); non-trivial = a held user or a deferred drum release occurred.",
    assumptions=[
        "private state is read with -fno-access-control from the same headers the library was built from",
        "chip key state is reconstructed from register 0x28 writes seen by the OPNMIDI_VERIF tap",
        "blank placeholder notes are not counted by I4/I5 (they own no chip channel and no instrument)",
    ],
    min_nontrivial={"quick": 300, "thorough": 3000},
    manifest=dict(
        technique="invariant checking over generated API histories (rapidcheck) + bounded-exhaustive enumeration; invariants evaluated after every call",
        level_text="Each clause of the property is an executable invariant over the live instance's private tables and the chip key state seen by the register tap; "
                   "it is evaluated after every call of generated histories and of all short sequences over a small alphabet.",
        level_note="Trusts the snapshot code's reading of the private structures and ASan for the memory side of dangling references.",
    ),
)

CHECKS["C05"] = dict(
    harnesses={"pbt": dict(src="c05_hold.cpp", cfg="asan", kind="rc")},
    quick=[dict(name="pbt", harness="pbt", workers=8, args=["--n", "2500", "--maxlen", "80"])],
    thorough=[dict(name="pbt", harness="pbt", workers=16, args=["--n", "60000", "--maxlen", "150"], timeout=7200)],
    rule="rapidcheck histories of note on (incl. velocity 0, blank programs) / off, CC64/66/120/121/123, panic, reset-state, program change and "
         "time advance on two melodic channels and the percussion channel, 1-2 chips; the generated list is sanitised by construction so that occupied chip "
         "channels never exceed channels-1; after EVERY call the set of (channel,key) pairs owning a keyed-on chip channel must EQUAL the reference model's set, "
         "note-on return values must match, and after a final release-everything + 95 ms no channel may be keyed on. "
         "Non-trivial = a note outlived its key through pedal/sostenuto or a drum release was deferred; distinct by FNV-64 of the sanitised history.",
    assumptions=[
        "polyphony precondition of the property: generated note-ons that would occupy more than channels-1 chip channels are dropped (each re-strike under a pedal occupies one more channel)",
        "CC66>=64 is sent only while sostenuto is off; reset-state only while no key is down (the statement does not say what either does otherwise)",
        "time advances are 7/11/40/100 ms so no percussion release falls exactly on the 30 ms boundary",
        "a deferred percussion release is an ordinary key-up at note-on + 30 ms (pedal rules apply at that moment)",
    ],
    min_nontrivial={"quick": 500, "thorough": 5000},
    manifest=dict(
        technique="model-based property testing: reference model of MIDI hold rules vs tap-observed keyed-on (channel,key) set after every call",
        level_text="A reference model written from the property text predicts the exact set of sounding (channel,key) pairs; the implementation's set is read "
                   "from the chip key state (register tap) joined with the chip-channel user lists and compared for equality after every generated call.",
        level_note="Trusts the tap-based key-state reconstruction and the reading of user lists; exactness relies on the stated generator preconditions.",
    ),
)

CHECKS["C06"] = dict(
    harnesses={"pbt": dict(src="c06_alloc.cpp", cfg="asan", kind="rc")},
    quick=[dict(name="pbt", harness="pbt", workers=8, args=["--n", "4000", "--maxlen", "100"])],
    thorough=[dict(name="pbt", harness="pbt", workers=16, args=["--n", "30000", "--maxlen", "200"], timeout=10800)],
    rule="rapidcheck histories (note on/off on 5 MIDI channels x 12 keys, CC64/66/121/123, programs with sounding delays 0/50/500/5000/40000 ms, "
         "time advances 1 ms..5 min bounded to 10 simulated minutes, alloc-mode and arpeggio changes) on 1..8 chips x 4 allocation modes x arpeggio on/off; "
         "for every note-on the bookkeeping snapshot before and after the call must satisfy relation (a) when a chip channel was idle and (b) when all were busy "
         "with mixed held/key-down occupancy. Non-trivial = the history contained at least one note-on judged by (a) or (b); distinct by FNV-64 of the case.",
    assumptions=[
        "simulated time per history is bounded to 600 s (the property's quantifier); beyond ~13 min the ageing terms of the scoring function change the ordering",
        "all generated programs are non-blank, so an idle channel implies the note must be accepted",
        "the retriggered (channel,key) itself is exempt from 'keeps its chip channel'",
    ],
    min_nontrivial={"quick": 500, "thorough": 5000},
    manifest=dict(
        technique="metamorphic/relational property testing: pre/post snapshot relation on every note-on of generated histories (rapidcheck)",
        level_text="The two clauses of the property are checked as relations between the voice-table snapshot before and after each generated note-on, over "
                   "chip counts 1..8, all four allocation modes, arpeggio on/off and up to 10 simulated minutes.",
        level_note="Trusts the snapshot reading of private tables; time is simulated by generating audio on the NP2 core at 8 kHz.",
    ),
)

CHECKS["C03"] = dict(
    harnesses={"pbt": dict(src="c03_api.cpp", cfg="asan", kind="rc"),
               "fuzz": dict(src="c03_api.cpp", cfg="asan", kind="fuzz", extra_flags=["-DVERIF_FUZZ"])},
    quick=[
        dict(name="pbt", harness="pbt", workers=8, args=["--n", "500", "--maxlen", "150"]),
        dict(name="fuzz", harness="fuzz", workers=8, args=["-runs=4000", "-max_len=4096"], seeds=False),
    ],
    thorough=[
        dict(name="pbt", harness="pbt", workers=16, args=["--n", "8000", "--maxlen", "400"], timeout=10800),
        dict(name="fuzz", harness="fuzz", workers=16, args=["-max_total_time=1200", "-max_len=8192"], seeds=False, timeout=7200),
    ],
    rule="generated sequences (rapidcheck: <=150/400 calls, three profiles: everything / real-time heavy / bank-map heavy with bank ids that collide in the map's hash buckets; libFuzzer: decoded from bytes, <=400 calls) over 73 call kinds covering every exported function, "
         "arguments from a boundary list (INT_MIN..INT_MAX, 0/15/16/17/126/127/128/255/...) mixed with uniform bytes, valid/truncated/garbage bank and music blobs "
         "(memory and file variants), all 9 emulator ids + invalid ones, chip counts, 9 sample rates, hooks, close/re-init; correctly sized exact heap buffers. "
         "Oracle: ASan/UBSan/assert/terminate, CPU-time watchdog, and the documented-failure table (return values). Non-trivial = calls from >=3 API groups "
         "(setup, bank, rt, sysex, sequencer, audio) and at least one boundary argument; distinct by FNV-64 of the case.",
    assumptions=[
        "bank handles are used only while live (removed handles / handles from before a bank load are caller misuse)",
        "audio rendered per case is capped by a weighted chip-frame budget so slow cores cannot starve the run (skips are counted)",
        "time arguments are finite doubles (no NaN)",
        "UBSan checks shift-base and signed-integer-overflow are disabled tree-wide (they fire inside third-party emulator cores in normal operation)",
    ],
    min_nontrivial={"quick": 500, "thorough": 5000},
    manifest=dict(
        engine="rapidcheck + libFuzzer",
        technique="API-sequence fuzzing (rapidcheck structured call lists with shrinking + coverage-guided libFuzzer on the same decoder) under ASan/UBSan with a return-value oracle and CPU watchdog",
        level_text="Random and coverage-guided call sequences over the whole exported API with hostile argument values; memory errors, UB, aborts, hangs (CPU time) "
                   "and wrong error returns are failures. Sampled exploration of an unbounded space.",
        level_note="Trusts sanitizers to surface memory errors; hang detection is a 120 s CPU-time budget per case.",
    ),
)

CHECKS["C19"] = dict(
    harnesses={"pbt": dict(src="c19_sysex.cpp", cfg="asan", kind="rc"),
               "fuzz": dict(src="c19_sysex.cpp", cfg="asan", kind="fuzz", extra_flags=["-DVERIF_FUZZ"])},
    quick=[dict(name="pbt", harness="pbt", workers=8, args=["--n", "6000"])],
    thorough=[dict(name="pbt", harness="pbt", workers=16, args=["--n", "150000"], timeout=7200),
              dict(name="fuzz", harness="fuzz", workers=8, args=["-max_total_time=300", "-max_len=80"], seeds=False, timeout=3600)],
    rule="messages = the seven recognised SysEx forms (GM on/off, master volume, GS system-mode set, GS reset, GS drum part, XG on) instantiated with device bytes "
         "(own id, broadcast, other id, wrong high nibble, random) and values, then one mutation (drop/duplicate/insert/change a byte at every position, checksum +-1, "
         "truncate, trailing byte, byte after F7, bit flip) or a random string <=64 bytes; prior state = device id 0..15, a mode set by a valid message, up to 8 "
         "note/controller/bend/program ops incl. pedal-held notes. Verdict from an independent validator; accepted messages must have exactly the documented effect, "
         "rejected ones must return 0, leave the full state snapshot identical and cause zero register writes. Non-trivial = a single-mutation neighbour (or unmutated "
         "instance) of a recognised message, or a valid message addressed to a non-zero configured id; distinct by FNV-64 of the case.",
    assumptions=[
        "Universal messages match the configured id or 0x7F; Roland and Yamaha messages match device byte 0x10|id; Roland/Yamaha messages sent to 0x7F are excluded from the verdict (counted)",
        "messages containing data bytes >= 0x80 between F0 and F7 are outside the statement: executed for memory safety only and counted as excluded",
        "a mode switch is required to reset controllers (not program/bank) and to leave no note sounding; a GS reset additionally leaves no channel as a custom drum part",
    ],
    min_nontrivial={"quick": 2000, "thorough": 20000},
    manifest=dict(
        engine="rapidcheck (+ libFuzzer in thorough)",
        technique="mutation-based property testing of SysEx messages against an independent validator (reference model) with full-state snapshot and register-tap comparison",
        level_text="Every generated message is classified by an independently written validator (framing, manufacturer, addressing, exact length, Roland checksum); the "
                   "implementation's return value, resulting mode/controllers/notes and register traffic are compared with the expected effect or with 'nothing changed'.",
        level_note="Trusts the validator's reading of the five message formats and the snapshot of private channel state.",
    ),
)

CHECKS["C11"] = dict(
    harnesses={"grid": dict(src="c11_volume.cpp", cfg="fast", kind="plain")},
    quick=[dict(name="grid", harness="grid", workers=16, args=["--grid", "quick"])],
    thorough=[dict(name="grid", harness="grid", workers=16, args=["--grid", "full"], timeout=14400)],
    rule="enumeration through the public API (note-on, CC7, CC11, CC74, master-volume SysEx, volume-model / modulator-scaling / full-range-brightness setters) of "
         "velocity x CC7 x CC11 for master volume in {0,1,64,127}, all 5 volume models x 8 FM algorithms x 3 instrument TL sets x modulator scaling on/off "
         "(quick: 31x32x32 boundary-biased sub-grid + full single-axis lines; thorough: the full 127x128x128 grid), plus master volume 0..127 and brightness 0..127 "
         "lines in both brightness modes, a 15-step CC74 path (down to 0, up, down, up) on a HELD note, and the velocity axis for instruments with velocity offsets -100/-20/+20/+100. Oracle on the 0x40-0x4F registers as the tap last saw them written "
         "(a skipped redundant write is not an error): range, carrier monotonicity along every axis, silence at zero, levels follow brightness in both directions and return to the full-brightness values, "
         "modulators untouched / never brighter. Non-trivial = a grid point whose written TL differs from both 127 and the instrument's TL (distinct by construction).",
    assumptions=[
        "carriers per algorithm are taken from the YM2612 manual (slot order S1,S3,S2,S4 in the register map)",
        "controller values stay within 0..127 (the MIDI data range named by the property); instrument TL bytes are 7-bit",
        "velocity 0 is a note-off and belongs to C05",
    ],
    min_nontrivial={"quick": 100000, "thorough": 1000000},
    manifest=dict(
        engine="bounded-exhaustive enumeration",
        technique="bounded-exhaustive grid enumeration through the public API with a monotonicity/range/silence oracle on tapped register writes",
        level_text="The property's own finite quantifier is enumerated: completely in the thorough tier (exhaustive flag set), as a boundary-biased sub-grid plus full "
                   "axis lines in the quick tier. Every written total-level byte is checked for range; monotonicity is checked between all axis neighbours.",
        level_note="Trusts the register tap and the carrier table from the chip manual; instrument TL sets are 3 representatives, not all 128^4.",
    ),
)

CHECKS["C10"] = dict(
    harnesses={"pitch": dict(src="c10_pitch.cpp", cfg="fast", kind="rc")},
    quick=[dict(name="grid", harness="pitch", workers=16, args=["--mode", "grid", "--grid", "quick"]),
           dict(name="scenarios", harness="pitch", workers=8, args=["--n", "4000"])],
    thorough=[dict(name="grid", harness="pitch", workers=16, args=["--mode", "grid", "--grid", "full"], timeout=14400),
              dict(name="scenarios", harness="pitch", workers=16, args=["--n", "20000"], timeout=7200)],
    rule="grid: chip family {OPN2,OPNA} x note offset {-60,-24,-12,-1,0,1,7,12,24,60} x melodic/percussion (drum key) x all 128 keys x 67 bend values x bend ranges "
         "(RPN0 MSB 0/1/2/12/24, LSB 0/50/99), plus all 16384 bend values on thinned key sets; every (block,F-number) pair written after a note-on or bend is decoded "
         "with the datasheet clock and must denote 440*2^((p-69)/12) within one F-number step, with unchanged multiplier registers, for p inside the native range; "
         "frequency monotone in p (a call that writes no frequency is judged by the pair the chip holds from earlier writes). scenarios (rapidcheck): bend fan-out over histories with key-down and "
         "pedal-held notes and bend-range (RPN 0) changes in between; portamento with overlapping keys incl. keys 0/1/2/126/127 (start tone at the note-on, every re-pitch "
         "between start and end tone, end tone reached); vibrato (modulation wheel 1..127 on one of two channels, with bend and note offset, 3-64 ms steps: the frequency the chip holds stays within +-wheel x depth of the nominal tone, the other channel's note stays exact, the first re-pitch after the wheel returned to 0 is exact). Non-trivial = a bent or block>=1 grid point / a history with a judged bend or glide; grid points distinct by construction.",
    assumptions=[
        "RPN 0 LSB: both 1/128-semitone (what the code does) and cents (MIDI RP-018) readings are accepted (p interval)",
        "points whose expected frequency is >= 6.6 kHz or < 8 Hz are outside the native range and skipped (counted)",
        "vibrato: the wave form and rate are not asserted, only that the offset stays within wheel value x the channel's vibrato depth (default 0.5 semitone at 127), affects only its own MIDI channel, and is gone at the first re-pitch after the wheel returned to 0; portamento rate law itself is not asserted, only bounds, direction and arrival",
    ],
    min_nontrivial={"quick": 50000, "thorough": 1000000},
    manifest=dict(
        engine="bounded enumeration + rapidcheck",
        technique="grid enumeration of keys x bends x ranges x offsets with an independent frequency decoder on tapped register writes; rapidcheck scenarios for bend fan-out and portamento",
        level_text="Every frequency register pair written through the public API over the grid is decoded with datasheet constants and compared with equal temperament "
                   "within one F-number step; the integer-key sub-grid is exhaustive; bend fan-out and glide end points are checked on generated histories.",
        level_note="Trusts the YM2612/YM2608 F-number formula and master clocks (7670454 / 7987200 Hz) as the reference.",
    ),
)

CHECKS["C12"] = dict(
    harnesses={"pbt": dict(src="c12_banksel.cpp", cfg="asan", kind="rc")},
    quick=[dict(name="pbt", harness="pbt", workers=8, args=["--n", "4000"])],
    thorough=[dict(name="pbt", harness="pbt", workers=16, args=["--n", "40000"], timeout=7200)],
    rule="rapidcheck: bank layout = subset of melodic banks {0:0,0:1,1:0,1:1,8:0,126:0,127:0,64:3} and percussion kits {0,1,8,127,128,129,255}, each entry blank with p=0.4, "
         "otherwise carrying a unique serial number in its operator bytes; installed through a generated WOPN image or the bank API; history of GM/GS/XG mode SysEx, GS drum-part "
         "SysEx, CC0/CC32, opn2_rt_bankChange{MSB,LSB,}, program changes, note-ons on channels 0/3/9/10 and opn2_setInstrument replacements. After each note-on the serial "
         "decoded from the tapped operator writes must be the one an independent resolver (written from the statement) predicts, or the note must be rejected without operator "
         "writes when the chain ends blank; percussion pitch must match the entry's drum key. Non-trivial = a fallback step was needed, or a percussion/XG-SFX/GS-LSB rule applied.",
    assumptions=[
        "note-ons are left out of the verdict (counted) where the statement does not say whether the channel is percussion: drum part assigned outside GS mode or left over after leaving it, "
        "MSB 126/127 in GM mode, MSB selected before the current mode was entered",
        "for percussion kits the 'bank with LSB cleared' step is the kit number with its low seven bits cleared: drum kit 0 for drum kits, SFX kit 0 (percussion bank 128) for the XG SFX kits, then drum kit 0",
        "opn2_rt_bankChangeMSB/LSB are documented aliases of CC0/CC32; opn2_rt_bankChange sets both parts",
        "controller and program values stay within 0..127",
    ],
    min_nontrivial={"quick": 500, "thorough": 5000},
    manifest=dict(
        technique="model-based property testing: independent bank/program resolver vs instrument identity decoded from tapped operator register writes",
        level_text="Generated layouts and selection histories; the instrument that actually reaches the chip is identified by a serial number hidden in its operator bytes and "
                   "compared with the resolver's prediction after every note-on.",
        level_note="Trusts the resolver's reading of the statement; states the statement leaves open are excluded and counted.",
    ),
)

CHECKS["C13"] = dict(
    harnesses={"pbt": dict(src="c13_audio.cpp", cfg="asan", kind="rc")},
    quick=[dict(name="pbt", harness="pbt", workers=8, args=["--n", "500"])],
    thorough=[dict(name="pbt", harness="pbt", workers=16, args=["--n", "15000"], timeout=10800)],
    rule="rapidcheck: instance (8 emulator cores weighted by speed, 1-4 chips, 4 sample rates, quiet or loud/clipping material, optionally a short song for play*) and up to 6 "
         "audio calls (generate, generateFormat, play, playFormat) with sampleCount from {-4..3, 1022..1026, 2047, 2048, 4097, 20000, 70000, random}, sample types 0..11, container "
         "1/2/3/4/8, interleaved or planar layout, stride multiples 1-3. The history runs on two fresh instances with different position-dependent poison (a byte counts as written "
         "unless it keeps both poisons) and on an F64 twin: exactly the reported samples must be stored, return values must follow the rules, and every supported pair must be the "
         "documented conversion of the twin's signal bit for bit. Non-trivial = non-silent signal and at least one supported-format call compared; distinct by FNV-64 of the case.",
    assumptions=[
        "two fresh instances given the same history in one process produce the same audio (that is property C14)",
        "refused (unsupported) calls are ordered after the accepted ones in a history, because the statement does not say whether a refused call may consume synth time",
        "sample offsets are multiples of the container size and buffers are suitably aligned (caller obligations)",
        "rendered frames per case are capped for slow cores (Nuked)",
    ],
    min_nontrivial={"quick": 300, "thorough": 3000},
    manifest=dict(
        technique="differential + guard-pattern property testing: dual-poison write-set check and bit-exact conversion oracle against an F64 twin instance",
        level_text="Generated call histories over all type/container/layout combinations; the set of modified bytes is determined exactly with two poison patterns and "
                   "the converted samples are compared bit for bit with the documented formulas applied to the float64 rendering of the same history.",
        level_note="Trusts determinism across instances (C14) and the harness's transcription of the documented conversion formulas.",
    ),
)

CHECKS["C18"] = dict(
    harnesses={"pbt": dict(src="c18_settings.cpp", cfg="asan", kind="rc")},
    quick=[dict(name="pbt", harness="pbt", workers=8, args=["--n", "700"])],
    thorough=[dict(name="pbt", harness="pbt", workers=16, args=["--n", "40000"], timeout=10800)],
    rule="rapidcheck histories of setters with in-range, boundary (0,1,100,101,-1,INT_MIN/MAX) and invalid arguments (chip count, emulator id -2..40, LFO enable/frequency, chip type, "
         "volume model, allocation mode, arpeggio, device id 0..16/255, boolean options (scale modulators also with the documented -1), loop enabled / loop count / tempo multiplier (incl. ignored values <= 0) / loop-hooks-only, the deprecated logarithmic-volumes switch, five hook kinds), opn2_reset, valid/corrupted bank images (two banks with different LFO/chip "
         "defaults), valid/corrupted music images, invalid bank ids / track / channel numbers, notes. After EVERY call the complete getter vector (public getters + device id, "
         "hook slots, boolean options, loaded-bank fingerprint read from the instance) must equal the reference model; at the end a fixed phrase is rendered on the instance and on a "
         "twin that received the same history WITHOUT the rejected calls: register stream and PCM must be identical. Non-trivial = a rejected call followed by reset/switch/load, or "
         "an accepted setter followed by >=2 of them; distinct by FNV-64 of the history.",
    assumptions=[
        "void setters are modelled only for documented values; out-of-range chip type / volume model numbers are treated as rejected calls",
        "settings without a getter and with an internal encoding (loop count, scale modulators -1, the volume model put in force by opn2_setLogarithmicVolumes) are modelled as 'what is in force right after the setter must stay in force'; whether a bank load ends the logarithmic-volumes switch is left open",
        "getNumChipsObtained is not asserted once the VGM dumper (which caps at 2 chips) has been selected in a history",
        "loop hooks are not asserted while the VGM dumper is the active emulator (it installs its own)",
        "after a rejected music file both the instance and its twin load the same valid file (the statement's 'able to load a valid file next') before comparison continues",
    ],
    min_nontrivial={"quick": 500, "thorough": 5000},
    manifest=dict(
        technique="model-based property testing (reference model of requested settings checked after every call) + differential twin probe of rendered audio and register stream",
        level_text="A model of the requested configuration predicts every getter after every generated call; audible equivalence after rejected calls is judged differentially "
                   "against a twin instance that never saw them.",
        level_note="Trusts the model's reading of 'bank default' semantics and the internal reads used where no public getter exists.",
    ),
)

CHECKS["C14"] = dict(
    harnesses={"pbt": dict(src="c14_isolation.cpp", cfg="asan", kind="rc"),
               "tsan": dict(src="c14_isolation.cpp", cfg="tsan", kind="rc", replay_args=["--threads", "1"])},
    quick=[
        dict(name="interleave", harness="pbt", workers=8, args=["--n", "400"]),
        dict(name="threads", harness="pbt", workers=2, args=["--mode", "threads", "--n", "100"]),
        dict(name="heapfill", harness="pbt", workers=4, args=["--mode", "heapfill", "--n", "120"]),
        dict(name="tsan", harness="tsan", workers=2, args=["--mode", "threads", "--n", "50"]),
    ],
    thorough=[
        dict(name="interleave", harness="pbt", workers=16, args=["--n", "3000"], timeout=10800),
        dict(name="threads", harness="pbt", workers=2, args=["--mode", "threads", "--n", "1000"], timeout=10800),
        dict(name="heapfill", harness="pbt", workers=8, args=["--mode", "heapfill", "--n", "500"], timeout=10800),
        dict(name="tsan", harness="tsan", workers=2, args=["--mode", "threads", "--n", "400"], timeout=10800),
    ],
    rule="interleave: rapidcheck generates 2-3 call histories (open with rate/emulator/chips, notes, controllers, programs with LFO-sensitive instruments, audio calls, emulator/chip-count/"
         "chip-type/LFO/PCM-rate changes, reset, bank reload, SysEx, SMF song load+play, DMX MUS song load (key-on with or without a volume byte); interferers may open/close repeatedly, every emulator id in both roles) and an interleaving; the observed "
         "instance's PCM and tapped register stream must be bit-identical when run alone, alone again, and interleaved. threads: 2-8 histories on concurrently started threads, each compared "
         "with its solo run; the same under ThreadSanitizer must produce no report. heapfill: one history rendered in three child processes whose allocator fills fresh memory with 0x00, "
         "0x5A, 0xFF must give identical hashes. Non-trivial = non-silent audio and (interleave) an interferer was created/reset/switched between two audio calls of the observed instance; "
         "distinct by FNV-64 of the case.",
    assumptions=[
        "thread schedules are not controlled: concurrency coverage relies on running the racing code simultaneously many times and on TSan's happens-before detection",
        "the VGM dumper is excluded from the observed role (it writes a fixed file name shared by all instances)",
        "rendered frames per instance are capped by a weighted budget (Nuked is 25x slower than NP2)",
    ],
    min_nontrivial={"quick": 100, "thorough": 1500},
    manifest=dict(
        technique="metamorphic property testing (solo vs repeated vs interleaved vs concurrent execution must be bit-identical) with rapidcheck-generated histories and interleavings, TSan for data races, cross-process heap-fill relation for uninitialised reads",
        level_text="Bit-exact comparison of PCM and register streams across solo, repeated, interleaved and multi-threaded executions of generated histories over all emulator pairs; "
                   "ThreadSanitizer on the threaded rounds; allocator-fill metamorphic relation across processes.",
        level_note="Thread interleavings are sampled, not enumerated; TSan sees only races on code executed concurrently by the generated histories.",
    ),
)

CHECKS["C07"] = dict(
    harnesses={"pbt": dict(src="c07_sequencer.cpp", cfg="asan", kind="rc")},
    quick=[dict(name="tick", harness="pbt", workers=8, args=["--n", "4000"]),
           dict(name="audio", harness="pbt", workers=8, args=["--mode", "audio", "--n", "100"])],
    thorough=[dict(name="tick", harness="pbt", workers=16, args=["--n", "60000"], timeout=10800),
              dict(name="audio", harness="pbt", workers=16, args=["--mode", "audio", "--n", "2500"], timeout=10800)],
    rule="rapidcheck SMF structures: format 0/1, 1-8 tracks (track k on channels 2k,2k+1; or, in 1 of 4 multi-track songs, every track on channels 0/1 with the same three keys and the track number carried in the last data byte), divisions {1,24,96,192,480,960,32767,random}, deltas 0 / small / multi-byte VLQ / up to 2M ticks, "
         "note on/off (velocity 0 too), controllers, program, bend, channel and key pressure with and without running status, SysEx F0 and F7, text/marker/sequencer-specific metas carrying "
         "(track,serial) stamps, tempo/time-signature/key/SMPTE/channel-prefix metas in track 0, End-of-Track alone at its tick or not; tempo multipliers {0.25,0.5,1,1.5,4,random}; "
         "track off / solo / both (also on the same track) and channel masks, channels switched off in the middle of playback (whatever sounds on them must stop; keys incl. 0/1/126/127); tick-driven (three step policies, three granularities) or audio-driven (request sizes 2..70000). An independent interpreter of the generated "
         "structure (exact rational tempo map) gives each event's tick and time; the raw-event-hook stream must contain every expected event once, per-track in tick order with the "
         "same-tick ordering constraints, in global time order, in the first call whose song time reaches its time (never earlier/later; audio: within one 512-frame period early, never late); "
         "totalTimeLength = latest time + 1 s; no note on gated channels/tracks. Non-trivial = (>=2 tracks or a tempo change after tick 0) and a tick with >=2 event classes.",
    assumptions=[
        "PPQN divisions only; tempo events only in track 0; CC110/111/113 and loop markers are not generated here (C09)",
        "same-tick ordering is checked as the constraints the statement lists, not as one expected permutation",
        "audio-driven songs are shortened (deltas <= 200 ticks, tempo <= 1 s per quarter) so rendering stays affordable",
    ],
    min_nontrivial={"quick": 300, "thorough": 3000},
    manifest=dict(
        technique="differential property testing against an independent reference interpreter of generated SMF structures (exact tempo arithmetic), observing delivery through the raw-event hook",
        level_text="Every generated file is interpreted independently from its structure; event identity, multiplicity, order constraints, delivery time (tick- and audio-driven), reported "
                   "length and gating are compared with what the sequencer actually delivers.",
        level_note="Trusts the reference interpreter's reading of the SMF specification and of the statement's same-tick rules.",
    ),
)

CHECKS["C08"] = dict(
    harnesses={"pbt": dict(src="c08_seek.cpp", cfg="asan", kind="rc")},
    quick=[dict(name="pbt", harness="pbt", workers=8, args=["--n", "4000"])],
    thorough=[dict(name="pbt", harness="pbt", workers=16, args=["--n", "40000"], timeout=10800)],
    rule="rapidcheck: generated SMF (as C07, plus RPN/NRPN data entry, pedals, portamento, reset-all-controllers; device-name metas FF 09 with three port names in any track) and a history: "
         "play to 0/30/60/95/100 % of the song, then 1-4 seeks to targets strictly between distinct event times (forward and backward), negative targets and targets beyond the end. Looping is off, "
         "or on with the whole song as the loop or with loopStart/loopEnd markers inserted into track 0 (targets then stay before the loop end). Instance A seeks; twin B is a freshly loaded "
         "instance (every second seek with looping off: the same twin rewound) played linearly to the same time. After each seek: reported position == target, no note sounding (pending 30 ms "
         "percussion releases excepted), 21 per-channel controller fields + synth mode + master volume equal the twin's (channels of a port the seeking instance met before the seek and linear "
         "playback has not reached yet must be in the state of a new channel); afterwards both are played to the end (looping: to the loop end and through two more rounds) and the raw-event "
         "streams (identity and song time) must be equal, and (looping off) equal to the reference interpreter's list of file events later than the target. "
         "Non-trivial = a target inside the song with notes sounding at the moment of the seek; distinct by FNV-64 of the case.",
    assumptions=[
        "looping is off; targets closer than 2 us to an event time are skipped (the statement says 'between event times')",
        "the twin executes the same history (statement: seeking equals playing linearly from the start), so programs/banks that a controller-state reset does not touch are compared like everything else",
    ],
    min_nontrivial={"quick": 300, "thorough": 3000},
    manifest=dict(
        technique="differential property testing: seek vs rewind-and-play twin on generated SMF histories, plus reference-interpreter check of the post-seek event stream",
        level_text="Seek is compared with its definition (linear playback to the same time) on a twin instance for position, controller state and the complete following event stream; "
                   "the stream is additionally checked against the independent interpreter's event times.",
        level_note="Trusts the twin mechanism (both run in one process) and the reference tempo arithmetic.",
    ),
)

CHECKS["C09"] = dict(
    harnesses={"pbt": dict(src="c09_loops.cpp", cfg="asan", kind="rc")},
    quick=[dict(name="pbt", harness="pbt", workers=8, args=["--n", "7000"])],
    thorough=[dict(name="pbt", harness="pbt", workers=16, args=["--n", "80000"], timeout=10800)],
    rule="rapidcheck: 1-3 track songs whose every occupied tick carries a (track,serial)-stamped text event (ordinary events on even ticks) plus 0-3 loop markers (meta 06 loopStart/loopEnd in "
         "random case, or CC111) placed as: valid pair, none, only start, only end, end<=start, duplicated start, duplicated end, start and end on one tick; the loop start may share its tick with "
         "events of any track, the loop end stands alone; loop enabled/disabled; counts -1,0,1,2,3,4 set before load (or after load + rewind); hooks registered before load, after load, or before "
         "a reset + load. A reference unroller gives the expected number of deliveries of every event (prefix once, body n times, suffix once; whole song when no valid loop); also checked: "
         "loop start/end times, end of song reported only after the suffix (never for count -1, observed over 6 passes), nothing sounding at the first event after each jump back, number of jumps, "
         "loop-end hook count (arrivals at loop end + song end) and loop-start hook count (passes, with an explicit valid loopStart). Non-trivial = valid loop with >=2 passes, or an invalid "
         "placement with looping enabled; distinct by FNV-64 of the case.",
    assumptions=[
        "count 0 is read as 'at least the one linear pass'",
        "the loop end marker stands alone on its tick (the statement does not order events that share the loop-end tick with the marker)",
        "events that share the loop START tick belong to the loop body (delivered once per pass)",
        "the loop-start hook count is asserted only with an explicit valid loopStart and the count set before load (a rewind arms one extra start callback)",
        "no sustain/sostenuto pedals in these songs",
    ],
    min_nontrivial={"quick": 500, "thorough": 5000},
    manifest=dict(
        technique="model-based property testing: reference loop unroller over generated stamped songs vs raw-event-hook delivery counts, hook counters and state snapshots at jump points",
        level_text="For generated songs and every marker placement class the number of deliveries of each stamped event, the loop times, the end-of-song report, the silence at each jump "
                   "back and both loop hook counters are compared with a reference unroller.",
        level_note="Trusts the unroller's reading of loop-boundary semantics as stated in the assumptions.",
    ),
)

CHECKS["C17"] = dict(
    harnesses={"pbt": dict(src="c17_frontends.cpp", cfg="asan", kind="rc")},
    quick=[dict(name="pbt", harness="pbt", workers=8, args=["--n", "2500"])],
    thorough=[dict(name="pbt", harness="pbt", workers=16, args=["--n", "80000"], timeout=10800)],
    rule="rapidcheck, four generators: (RMI) a generated SMF wrapped in RIFF/RMID (even and odd sizes) and (GMF) a single-track body wrapped as GMF must deliver the raw-event stream of the bare "
         "SMF at identical song times; (MUS) generated DMX MUS scores (release, play with/without volume byte, pitch wheel 0..255, system events 10..14, controllers 0..9, channels 0..14 + 15, "
         "single- and multi-byte delays) are interpreted independently (channel 15 -> MIDI 9, others in first-use order skipping 9, controller table, remembered volumes, pitch-wheel MSB) and "
         "compared event by event, with one fitted tick length that must be within 2.5 % of 1/140 s and fit every event; (XMI) generated AIL XMIDI files with 1-4 sequences (tempo at time 0, "
         "notes with durations, controllers, program, bend, pressure, interval counts as 0x7F sums) selected before or after load: getSongsCount, note-offs at on+duration, events on the 120 Hz "
         "grid (exact for tempos that are multiples of 25000 us, 1/PPQN otherwise). Non-trivial = RMI/GMF with >2 events, MUS with >=3 channels incl. 15 and a multi-byte delay, XMI with >=2 "
         "sequences and a played index > 0.",
    assumptions=[
        "MUS: the converter's own housekeeping (tempo meta, initial CC7=100 per channel, End-of-Track) is removed before comparison; release velocity and the value of the 'mono' system event are free; pitch-wheel LSB may be 0 or the half step",
        "XMI: controllers 0 and 110..119 (XMIDI-specific translations) and TIMB/RBRN chunks are not generated",
        "every MUS channel states a volume on its first note (the format does not define the initial volume)",
    ],
    min_nontrivial={"quick": 300, "thorough": 3000},
    manifest=dict(
        technique="differential (container vs bare SMF twin) and model-based (independent MUS / XMIDI interpreters over generated score models) property testing through the raw-event hook",
        level_text="RMI/GMF are judged differentially against the bare SMF; MUS and XMIDI deliveries are compared with independent interpreters of the two formats, including the tick-rate clauses.",
        level_note="Trusts the harness's MUS and XMIDI writers/interpreters (written from the format documentation, not from the converters).",
    ),
)

CHECKS["C02"] = dict(
    harnesses={"pbt": dict(src="c02_banks.cpp", cfg="asan", kind="rc"),
               "fuzz": dict(src="c02_banks.cpp", cfg="asan", kind="fuzz", extra_flags=["-DVERIF_FUZZ"])},
    quick=[
        dict(name="pbt", harness="pbt", workers=8, args=["--n", "500"]),
        dict(name="fuzz", harness="fuzz", workers=8, empty_corpus_workers=2, args=["-runs=6000", "-max_len=20000"], unit_timeout=60),
    ],
    thorough=[
        dict(name="pbt", harness="pbt", workers=16, args=["--n", "12000"], timeout=10800),
        dict(name="fuzz", harness="fuzz", workers=16, empty_corpus_workers=4, args=["-max_total_time=900", "-max_len=40000"], unit_timeout=60, timeout=7200),
    ],
    rule="pbt hostile_fields: 1-5 instruments whose note offset (boundary-heavy int16: +-32768, +-12290, ...), drum key, feedback/algorithm, LFO sensitivity, 28 operator bytes, delays, "
         "velocity offset and flags are hostile are placed in a well-formed WOPN v1/v2 image (banks with msb/lsb up to 255) loaded with opn2_openBankData, or written through "
         "opn2_getBank(create)+opn2_setInstrument; then 4-40 ops select them (CC0/CC32/program) and play: note-ons on all keys incl. >127, velocities incl. >127, bends, RPN0 range, "
         "portamento, 20 controllers with values 0..255, aftertouch, time (1 ms..2.5 s), note-off, panic/reset; 6 emulators, 1-3 chips, 7 volume models, OPN2/OPNA family. "
         "pbt hostile_header: every magic/version (old magic, version 0/1/2/3/65535) x bank counts from a boundary list (0..65535, incl. pairs whose 16-bit sum wraps) x body absent / short / exact / truncated / sized for a wrapped total. "
         "fuzz: raw bytes (seeded with v1/v2 banks and OPNI files, and from an empty corpus) go, as exact-size heap copies, through WOPN_LoadBankFromMem, WOPN_LoadInstFromMem and "
         "opn2_openBankData, followed by decoded play ops. Oracle: return codes in the documented sets, error text on rejection, an accepted block is at least as long as its declared "
         "content needs, ASan/UBSan/asserts, 30 s CPU watchdog per case (every call returns), register tap: chip index < chips, port < 2, register 0x21..0xB7, value <= 0xFF. "
         "Non-trivial = (pbt) bank accepted and >= 1 note-on sounded; (fuzz) the block got past the magic check; distinct by FNV-64 of the case.",
    assumptions=[
        "instrument writes through the API use the documented structure with every field at any representable value",
        "'bounded time' is judged by CPU time: 30 s for a case of at most ~45 calls and a few seconds of rendered audio",
    ],
    min_nontrivial={"quick": 500, "thorough": 8000},
    manifest=dict(
        engine="rapidcheck + libFuzzer",
        technique="coverage-guided fuzzing of the bank/instrument loaders (exact-size input blocks under ASan) and property-based testing with hostile instrument field values followed by generated play sequences, with return-code, CPU-time and register-range oracles",
        level_text="Hostile bank bytes through all three loaders and hostile instrument fields through file and API routes, then played with any notes/controllers; memory errors, UB, "
                   "undefined return codes, hangs (CPU watchdog) and out-of-range register writes are failures.",
        level_note="Trusts the sanitizers and the register tap hook; the hang oracle is CPU time, never wall clock.",
    ),
)

CHECKS["C20"] = dict(
    harnesses={"dsp": dict(src="c20_cores.cpp", cfg="fast", kind="rc")},
    quick=[dict(name="dsp", harness="dsp", workers=16, args=["--n", "400"])],
    thorough=[dict(name="dsp", harness="dsp", workers=16, args=["--n", "15000"], timeout=14400)],
    rule="rapidcheck draws a configuration: core (all 8 audio cores) x chip family setting {bank default, OPN2, OPNA} x sample rate (the 11 named rates incl. native 53267/55466, or uniform "
         "8000..192000) x run-at-PCM-rate on/off x 1-3 chips x key 24..108 with f0 < 0.4*rate (48.. for the slow Nuked cores) x audio call size x scenario {single held note; chord of "
         "3-6 notes >= 3 semitones apart; dense burst of 200-600 note/CC7/CC11/bend events issued between two audio calls while the test note is held} x release {note-off, panic, reset}. "
         "A pure-tone instrument (algorithm 7, one carrier, instant attack, fastest release) is installed in every program. Oracle on the S16 PCM: idle output constant within 1 % FS; "
         "onset within 10 ms (single/chord); RMS of every 50 ms window > 1 % FS while held; zero-crossing frequency within 0.5 % (1 % below 22.05 kHz) of 440*2^((key-69)/12) when the core "
         "runs at its native rate (chords: Goertzel amplitude at every nominal frequency); >= 200 ms after the release, panic or reset every sample of both channels within 1 % FS of the "
         "idle level for 300 ms, in both PCM-rate modes. Non-trivial = the tone was detected (peak > 2 % FS); distinct by FNV-64 of the configuration.",
    assumptions=[
        "keys whose nominal frequency is at or above 0.4 x the output rate are outside the property (no fundamental can be rendered)",
        "the note is played at velocity 127 with default channel volume; 'audible' is judged at 1 % of full scale",
        "after a burst, 400 ms are allowed before the held note is measured and 500 ms before silence is required (queued cores apply one register write per native sample)",
    ],
    min_nontrivial={"quick": 3000, "thorough": 100000},
    manifest=dict(
        engine="rapidcheck",
        technique="property-based testing over the emulator configuration space with a signal-analysis oracle (zero-crossing pitch, onset, windowed RMS, Goertzel, residual level) on rendered PCM",
        level_text="Sampled configurations of every core/family/rate/mode with single notes, chords and dense event bursts; pitch, onset, audibility and silence after release/panic/reset "
                   "are measured on the audio the public API returns.",
        level_note="Sampled, not exhaustive; unsanitized -O2 build (numeric check); tolerances are the property's own.",
    ),
)

_C01_ENV = {"ASAN_OPTIONS": "max_allocation_size_mb=256"}
CHECKS["C01"] = dict(
    harnesses={"pbt": dict(src="c01_music.cpp", cfg="asan", kind="rc", env=_C01_ENV),
               "fuzz": dict(src="c01_music.cpp", cfg="asan", kind="fuzz", extra_flags=["-DVERIF_FUZZ"], env=_C01_ENV)},
    quick=[
        dict(name="pbt", harness="pbt", workers=8, args=["--n", "1500"]),
        dict(name="fuzz", harness="fuzz", workers=8, empty_corpus_workers=2, args=["-runs=15000", "-max_len=4096"], unit_timeout=60),
    ],
    thorough=[
        dict(name="pbt", harness="pbt", workers=16, args=["--n", "40000"], timeout=10800),
        dict(name="fuzz", harness="fuzz", workers=16, empty_corpus_workers=4, args=["-max_total_time=1200", "-max_len=65536"], unit_timeout=60, timeout=7200),
    ],
    rule="pbt: a valid file of every front-end (SMF with every event kind, loop markers, device-switch meta; SMF with stacked marker loops; RMI; GMF; MUS; XMI with 1 and 3 songs; XMI with FOR/BREAK/NEXT loops; CMF header; an SMF spelling the sequencer's internal meta codes FF E1..E7; SMFs naming 3/15/16/17/40 MIDI ports; rapidcheck-generated SMF/RMI) "
         "receives 0-4 structured mutations (truncate anywhere, MTrk/IFF length fields set to 0/1/0x7fffffff/0xffffffff/..., division and track count rewritten incl. 0, byte rewrite, end on FF, "
         "unterminated VLQ, slice duplication/deletion, MUS header fields, trailing bytes, declared meta-event lengths 0/1/2/longer optionally with the meta type rewritten (tempo, internal codes E1..E7, port, end of track, marker), an XMI branch table (RBRN) of 1..4000 entries with repeating ids, bit flips), is loaded with a song number / loop / tempo chosen before the load and followed by up to 12 ops "
         "(tick, play, seek incl. negative/beyond the end, rewind, queries, song selection -3..5, track/channel options, titles and markers with out-of-range indices, describe, re-open whole or "
         "truncated). fuzz: libFuzzer over file bytes + a decoded tail of the same options/ops, from the committed seed files and from an empty corpus. Oracle: openData returns 0/-1 with an error "
         "text, no sanitizer report / assert / abort / exception, 30 s CPU watchdog, single allocations capped at 256 MiB, live heap growth during the case <= 64 MiB + 128 KiB per input byte (ASan malloc/free hooks), CPU time of every load call <= 5 s + 2 ms per input byte, and a known-good SMF must load and play to its end afterwards. "
         "Non-trivial = the loader got past format detection and at least one follow-up op ran; distinct by FNV-64 of the case.",
    assumptions=[
        "inputs are at most 64 KiB; 'time and memory proportional to the input' is judged with bounds linear in the input size whose constants are far above what the unchanged code needs (measured maxima are in coverage.numbers max_*: ~1.6 MB live heap, ~100 KiB per input byte for tiny inputs, 0.12 s per load) plus fixed caps (30 s CPU per case, 256 MiB per allocation)",
        "libFuzzer timeout/oom/slow-unit artifacts are only candidates: they count when the deterministic replay under the CPU watchdog fails 3/3",
    ],
    min_nontrivial={"quick": 1000, "thorough": 20000},
    manifest=dict(
        engine="rapidcheck + libFuzzer",
        technique="coverage-guided fuzzing (libFuzzer, structure-aware tail) and mutation-based property testing of the music loader and follow-up calls under ASan/UBSan with contract, CPU-time and allocation oracles",
        level_text="Hostile music data for every front-end, then playback/seek/song-switch/metadata calls; memory errors, UB, aborts, hangs, oversized allocations, missing error text and a "
                   "broken instance afterwards are failures.",
        level_note="Trusts the sanitizers; the hang oracle is CPU time (30 s per case), never wall clock.",
    ),
)
