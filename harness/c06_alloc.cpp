// C06: a new note never displaces a sounding note while a chip channel is idle; when all are busy a channel
// holding a single released-but-pedal-held note goes before any channel whose key is still down.
// Engine: rapidcheck histories; oracle = relation between the bookkeeping snapshot before and after every note-on.
#include "common/ops.hpp"
#include "common/rc_util.hpp"
#include <set>

using namespace vf;
static const long RATE = 8000;

struct Case { int chips = 1, arp = 0, alloc = -1; std::vector<Op> ops; };
static std::string ser(const Case &c) { std::ostringstream o; o << "cfg " << c.chips << " " << c.arp << " " << c.alloc << "\n" << ser_ops(c.ops); return o.str(); }
static Case deser(const std::string &s) { Case c; std::istringstream in(s); std::string w; in >> w >> c.chips >> c.arp >> c.alloc; c.ops = deser_ops(in); return c; }

struct Info { unsigned a_cases = 0, b_cases = 0; double sim_s = 0; };

static std::vector<Op> sanitize(const std::vector<Op> &in) { // total simulated time <= 600 s
    std::vector<Op> out; double t = 0;
    for(const Op &p : in) { if(p.kind == O_ADVANCE) { if(t + p.a / 1000.0 > 600.0) continue; t += p.a / 1000.0; } out.push_back(p); }
    return out;
}

static void run(const Case &c, Info &info) {
    World W; W.start(RATE, EMU_NP2, c.chips);
    W.tick_advance_threshold_ms = 1000;
    opn2_setAutoArpeggio(W.I.dev, c.arp);
    opn2_setChannelAllocMode(W.I.dev, c.alloc);
    // programs 0..4 with key-on/key-off sounding delays 0,50,500,5000,40000 ms
    { OPN2_Bank b; static const int d[5] = {0, 50, 500, 5000, 40000};
      if(api_get_bank(W.I.dev, 0, 0, 0, &b, 0)) for(unsigned i = 0; i < 5; i++) { OPN2_Instrument in = make_ins((uint8_t)i, 1, 0, 0, (uint16_t)(d[i] ? d[i] : 1), (uint16_t)d[(i + 2) % 5]); opn2_setInstrument(W.I.dev, &b, i, &in); } }
    W.drain_tap();
    for(size_t i = 0; i < c.ops.size(); i++) {
        const Op &p = c.ops[i];
        if(p.kind == O_ADVANCE) info.sim_s += p.a / 1000.0;
        if(!(p.kind == O_NOTEON && p.c > 0)) { W.apply(p); continue; }
        Snapshot pre = take_snapshot(W.I);
        W.apply(p);
        Snapshot post = take_snapshot(W.I);
        unsigned ch = (unsigned)p.a, key = (unsigned)(p.b > 127 ? 127 : p.b);
        bool idle = false, all_busy = true;
        for(size_t k = 0; k < pre.nchan; k++) if(pre.users[k].empty()) { idle = true; all_busy = false; }
        // where did the new note go?
        std::vector<unsigned> placed;
        for(const SnapNote &n : post.notes[ch]) if(n.note == key && !n.blank) placed = n.chans;
        if(idle) {
            info.a_cases++;
            VCHECK(W.last_ret == 1, "step %zu: note-on %u/%u rejected (returned %d) although a chip channel was idle", i + 1, ch, key, W.last_ret);
            VCHECK(!placed.empty(), "step %zu: accepted note %u/%u owns no chip channel", i + 1, ch, key);
            for(unsigned pc : placed) {
                VCHECK(pc < pre.nchan, "step %zu: placed on chip channel %u which does not exist", i + 1, pc);
                for(const SnapUser &u : pre.users[pc])
                    VCHECK(u.midch == ch && u.note == key, "step %zu: note %u/%u was placed on chip channel %u which was in use by %u/%u while another channel was idle",
                           i + 1, ch, key, pc, u.midch, u.note);
            }
            for(size_t k = 0; k < pre.nchan; k++) for(const SnapUser &u : pre.users[k]) {
                if(u.midch == ch && u.note == key) continue; // the retriggered key itself
                bool still = false;
                for(const SnapUser &v : post.users[k]) if(v.midch == u.midch && v.note == u.note) still = true;
                VCHECK(still, "step %zu: note %u/%u lost chip channel %zu when %u/%u arrived although a channel was idle", i + 1, u.midch, u.note, k, ch, key);
            }
        } else if(all_busy && W.last_ret == 1 && !placed.empty()) {
            bool have_single_held = false, have_all_down = false, retrigger_frees = false;
            // "released": the pedal flag is only ever set at key-up; a sostenuto mark counts only when no active note still uses the channel
            auto released = [&](const SnapUser &u, size_t k) {
                if(u.sustained & 1) return true;
                if(u.sustained & 2) { for(const SnapNote &n : pre.notes[u.midch]) if(n.note == u.note) for(unsigned cc : n.chans) if(cc == k) return false; return true; }
                return false;
            };
            for(size_t k = 0; k < pre.nchan; k++) {
                bool alld = true; for(const SnapUser &u : pre.users[k]) { if(u.sustained != 0) alld = false; if(u.midch == ch && u.note == key && u.sustained == 0) retrigger_frees = true; }
                if(alld) have_all_down = true;
                if(pre.users[k].size() == 1 && released(pre.users[k][0], k) && !(pre.users[k][0].midch == ch && pre.users[k][0].note == key)) have_single_held = true;
            }
            // a re-strike of a key that is down releases its own channel first: then a channel IS idle and clause (b) does not apply
            if(have_single_held && have_all_down && !retrigger_frees) {
                info.b_cases++;
                for(unsigned pc : placed) {
                    bool alld = true; for(const SnapUser &u : pre.users[pc]) if(u.sustained != 0) alld = false;
                    VCHECK(!alld, "step %zu: note %u/%u took chip channel %u whose key(s) were still down although another channel held only a released, pedal-held note", i + 1, ch, key, pc);
                }
            }
        }
    }
}

static rc::Gen<Op> genOp() {
    using namespace rc;
    auto kind = gen::weightedElement<int>({{40, O_NOTEON}, {16, O_NOTEOFF}, {12, O_CC}, {5, O_PATCH}, {12, O_ADVANCE}, {1, O_PANIC}, {1, O_ALLOCMODE}, {1, O_ARP}});
    return gen::map(gen::tuple(kind, rng<int>(0, 1000), rng<int>(0, 1000), rng<int>(0, 1000)), [](std::tuple<int, int, int, int> t) {
        int k = std::get<0>(t), a = std::get<1>(t), b = std::get<2>(t), c = std::get<3>(t);
        static const int chs[] = {0, 1, 2, 3, 9, 0};
        Op p; p.kind = k; int ch = chs[a % 6];
        int key = 48 + (b % 12);
        switch(k) {
        case O_NOTEON: p.a = ch; p.b = key; p.c = 1 + c % 127; break;
        case O_NOTEOFF: p.a = ch; p.b = key; break;
        case O_CC: { static const int cc[] = {64, 64, 64, 66, 66, 123, 121, 64}; p.a = ch; p.b = cc[b % 8]; p.c = (c % 3) ? 127 : 0; break; }
        case O_PATCH: p.a = ch; p.b = b % 5; break;
        case O_ADVANCE: { static const int ms[] = {1, 10, 10, 100, 100, 1000, 10000, 60000, 300000, 30}; p.a = ms[a % 10]; break; }
        case O_ALLOCMODE: p.a = (a % 4) - 1; break;
        case O_ARP: p.a = a & 1; break;
        default: break;
        }
        return p;
    });
}
namespace rc { template <> struct Arbitrary<Op> { static Gen<Op> arbitrary() { return genOp(); } }; }
namespace vf { void showValue(const Op &p, std::ostream &os) { os << kOpName[p.kind] << "(" << p.a << "," << p.b << "," << p.c << ")"; } }

int main(int argc, char **argv) {
    parse_args(argc, argv);
    Ctx &c = ctx();
    if(!c.kv.count("cpuset")) c.cpu_budget_s = c.opt("budget", 120);
    if(c.mode == "replay") return replay_main([](const std::string &s) { Info info; run(deser(s), info); });
    int maxlen = (int)c.opt("maxlen", 100);
    pbt("c06_allocation_relation", c.n, maxlen, [](const std::vector<Op> &raw) {
        Case cs;
        cs.chips = *rc::gen::weightedElement<int>({{6, 1}, {3, 2}, {1, 3}, {1, 8}, {1, 5}});
        cs.arp = *rng<int>(0, 1); cs.alloc = *rng<int>(-1, 2);
        cs.ops = sanitize(raw);
        std::string s = ser(cs);
        run_case(s, [&] {
            Info info; run(cs, info);
            Stats &st = ctx().stats;
            st.note_case(s, info.a_cases > 0 || info.b_cases > 0);
            st.label("noteon_with_idle_channel(a)", info.a_cases); st.label("noteon_all_busy_mixed(b)", info.b_cases);
            st.label("alloc_mode_" + std::to_string(cs.alloc)); st.label(cs.arp ? "arpeggio_on" : "arpeggio_off"); st.label("chips_" + std::to_string(cs.chips));
            if(info.sim_s > 60) st.label("simulated_time>60s");
        });
    });
    return finish();
}
