// C04: voice-allocation bookkeeping stays consistent after every call.
// Engines: rapidcheck op sequences + bounded-exhaustive enumeration; invariant checked after EVERY op.
#include "common/ops.hpp"
#include "common/rc_util.hpp"
#include <set>

using namespace vf;

struct Case { int chips = 1, arp = 0, emu = EMU_NP2; std::vector<Op> ops; };
static std::string ser(const Case &c) { std::ostringstream o; o << "cfg " << c.chips << " " << c.arp << " " << c.emu << "\n" << ser_ops(c.ops); return o.str(); }
static Case deser(const std::string &s) { Case c; std::istringstream in(s); std::string w; in >> w >> c.chips >> c.arp >> c.emu; c.ops = deser_ops(in); return c; }

struct Info { bool bank_removed_under_notes = false, evicted = false, arpeggio = false, sost = false, pedal_held = false, ext = false, rebuilt = false; };

static void check_inv(World &W, const char *when, size_t step, Info &info) {
    Snapshot s = take_snapshot(W.I);
    OPNMIDIplay *p = W.I.play();
    OPN2 &synth = W.I.synth();
    VCHECK(s.nchan == synth.m_numChannels, "chip-channel table has %zu entries but the synth has %u channels (%s, step %zu)", s.nchan, synth.m_numChannels, when, step);
    // instrument address ranges of loaded banks
    std::vector<std::pair<const OpnInstMeta *, const OpnInstMeta *>> ranges;
    for(OPN2::BankMap::iterator it = synth.m_insBanks.begin(); it != synth.m_insBanks.end(); ++it)
        ranges.push_back(std::make_pair(&it->second.ins[0], &it->second.ins[0] + 128));
    for(size_t m = 0; m < s.notes.size(); m++) {
        std::set<unsigned> keys; unsigned nglide = 0, next = 0;
        for(const SnapNote &n : s.notes[m]) {
            VCHECK(keys.insert(n.note).second, "I3: key %u appears twice among the active notes of MIDI channel %zu (%s, step %zu)", n.note, m, when, step);
            if(n.blank) continue;
            if(n.glide != HUGE_VAL) nglide++;
            if(n.ttl > 0) { next++; info.ext = true; }
            for(unsigned c : n.chans) {
                VCHECK(c < s.nchan, "I1: note %zu/%u refers to chip channel %u, only %zu exist (%s, step %zu)", m, n.note, c, s.nchan, when, step);
                bool found = false;
                for(const SnapUser &u : s.users[c]) if(u.midch == m && u.note == n.note) found = true;
                VCHECK(found, "I1: note %zu/%u claims chip channel %u but is not among its users (%s, step %zu)", m, n.note, c, when, step);
            }
            bool ok = (n.ains == &OPN2::m_emptyInstrument);
            for(auto &r : ranges) if(n.ains >= r.first && n.ains < r.second && ((const char *)n.ains - (const char *)r.first) % sizeof(OpnInstMeta) == 0) ok = true;
            VCHECK(ok, "I5: instrument pointer of note %zu/%u is not an entry of a loaded bank (%s, step %zu)", m, n.note, when, step);
        }
        VCHECK(s.glidecnt[m] == nglide, "I4: gliding counter of MIDI channel %zu is %u but %u notes glide (%s, step %zu)", m, s.glidecnt[m], nglide, when, step);
        VCHECK(s.extcnt[m] == next, "I4: extended-lifetime counter of MIDI channel %zu is %u but %u notes have ttl>0 (%s, step %zu)", m, s.extcnt[m], next, when, step);
    }
    for(size_t c = 0; c < s.nchan; c++) {
        std::set<std::pair<unsigned, unsigned>> locs;
        for(const SnapUser &u : s.users[c]) {
            VCHECK(locs.insert(std::make_pair(u.midch, u.note)).second, "I3: location %u/%u twice among users of chip channel %zu (%s, step %zu)", u.midch, u.note, c, when, step);
            if(u.sustained & 2) info.sost = true;
            if(u.sustained & 1) info.pedal_held = true;
            if(u.sustained == 0) {
                VCHECK(u.midch < s.notes.size(), "I2: user of chip channel %zu names MIDI channel %u which does not exist (%s, step %zu)", c, u.midch, when, step);
                bool found = false;
                for(const SnapNote &n : s.notes[u.midch]) if(n.note == u.note && !n.blank) for(unsigned cc : n.chans) if(cc == c) found = true;
                VCHECK(found, "I2: chip channel %zu has non-sustained user %u/%u without a matching active note (%s, step %zu)", c, u.midch, u.note, when, step);
            }
        }
        if(s.users[c].size() > 1) info.arpeggio = true;
        bool keyed = c < W.keys.on.size() && W.keys.on[c];
        VCHECK(keyed == !s.users[c].empty(), "I6: chip channel %zu is %s at the chip but has %zu user(s) (%s, step %zu)", c, keyed ? "keyed on" : "keyed off", s.users[c].size(), when, step);
    }
    (void)p;
}

static void run(const Case &c, Info &info) {
    World W;
    W.start(8000, c.emu, c.chips);
    opn2_setAutoArpeggio(W.I.dev, c.arp);
    W.drain_tap();
    check_inv(W, "start", 0, info);
    for(size_t i = 0; i < c.ops.size(); i++) {
        const Op &op = c.ops[i];
        bool all_busy = false;
        if(op.kind == O_NOTEON && op.c > 0) {
            all_busy = true;
            OPNMIDIplay *p = W.I.play();
            for(size_t k = 0; k < p->m_chipChannels.size(); k++) if(p->m_chipChannels[k].users.empty()) all_busy = false;
        }
        W.apply(op);
        if(all_busy && W.last_ret) info.evicted = true;
        if(op.kind == O_CHIPS || op.kind == O_EMU || op.kind == O_RELOADBANK || op.kind == O_RESET || op.kind == O_PLAYFILE || op.kind == O_CHIPTYPE) info.rebuilt = true;
        if(op.kind == O_REMOVEBANK && W.last_ret == 0) { bool any = false; OPNMIDIplay *p = W.I.play(); for(size_t m = 0; m < p->m_midiChannels.size(); m++) if(!p->m_midiChannels[m].activenotes.empty()) any = true; if(any) info.bank_removed_under_notes = true; }
        check_inv(W, kOpName[op.kind], i + 1, info);
    }
}

// ---------------------------------------------------------------- generator (profile "voices")
static const int kCh[] = {0, 1, 9, 9, 0, 15};
static const int kKey[] = {60, 62, 64, 36, 38, 127, 60, 36};
static const int kCC[] = {64, 64, 66, 66, 120, 121, 123, 7, 1, 65, 5, 10, 11, 74, 0, 32, 67};
static const int kVal[] = {0, 127, 64, 63, 100};
static const int kMs[] = {1, 5, 10, 20, 35, 50, 100, 500, 30, 31};

static Op normalize(int kind, int a, int b, int c) {
    Op p; p.kind = kind;
    auto pick = [](const int *arr, size_t n, int v) { return arr[(size_t)(v < 0 ? -v : v) % n]; };
    switch(kind) {
    case O_NOTEON: p.a = pick(kCh, 6, a); p.b = pick(kKey, 8, b); p.c = (c % 7 == 0) ? 0 : 1 + (c % 127); break;
    case O_NOTEOFF: p.a = pick(kCh, 6, a); p.b = pick(kKey, 8, b); break;
    case O_CC: p.a = pick(kCh, 6, a); p.b = pick(kCC, 17, b); p.c = (p.b == 0 || p.b == 32) ? (c & 1) : pick(kVal, 5, c); break;
    case O_PATCH: p.a = pick(kCh, 6, a); p.b = b % 8; break;
    case O_BEND: p.a = pick(kCh, 6, a); p.b = (b % 3 == 0) ? 8192 : (b * 37) % 16384; break;
    case O_ADVANCE: p.a = pick(kMs, 10, a); break;
    case O_ATNOTE: p.a = pick(kCh, 6, a); p.b = pick(kKey, 8, b); p.c = c % 128; break;
    case O_ATCH: p.a = pick(kCh, 6, a); p.b = b % 128; break;
    case O_ARP: p.a = a & 1; break;
    case O_CHIPS: p.a = 1 + a % 3; break;
    case O_EMU: { static const int emus[] = {EMU_NP2, EMU_GENS, EMU_MAME, EMU_NP2, EMU_MAME2608, EMU_YMFM_OPN2}; p.a = emus[(size_t)a % 6]; break; }
    case O_ALLOCMODE: p.a = (a % 4) - 1; break;
    case O_SYSEX: p.a = a % 6; break;
    case O_SETBLANK: p.a = a % 8; p.b = b & 1; p.c = 0; break;
    case O_PLAYFILE: p.a = pick(kCh, 6, a); p.b = pick(kKey, 8, b) % 100; p.c = c % 40; break;
    case O_CHIPTYPE: p.a = (a % 3) - 1; break;
    case O_ADDBANK: case O_REMOVEBANK: p.a = a & 1; p.b = b & 1; p.c = (c % 3 == 0); if(kind == O_REMOVEBANK && c % 2 == 0) { p.a = 0; p.b = 0; } break;
    default: break;
    }
    return p;
}
static rc::Gen<Op> genOp() {
    using namespace rc;
    auto kind = gen::weightedElement<int>({{30, O_NOTEON}, {14, O_NOTEOFF}, {16, O_CC}, {4, O_PATCH}, {3, O_BEND}, {2, O_PANIC}, {2, O_RESETSTATE}, {10, O_ADVANCE},
                                           {1, O_ATNOTE}, {1, O_ATCH}, {2, O_ARP}, {1, O_CHIPS}, {1, O_EMU}, {1, O_RELOADBANK}, {1, O_RESET}, {1, O_ALLOCMODE},
                                           {2, O_SYSEX}, {2, O_SETBLANK}, {1, O_PLAYFILE}, {1, O_CHIPTYPE}, {2, O_ADDBANK}, {2, O_REMOVEBANK}});
    return gen::map(gen::tuple(kind, rng<int>(0, 1000), rng<int>(0, 1000), rng<int>(0, 1000)),
                    [](std::tuple<int, int, int, int> t) { return normalize(std::get<0>(t), std::get<1>(t), std::get<2>(t), std::get<3>(t)); });
}
// profile "deep": no table-rebuilding ops, one chip, many simultaneous young notes of two instruments, pedals - reaches
// arpeggio sharing, evacuation and re-strikes of pedal-held keys
static rc::Gen<Op> genOpDeep() {
    using namespace rc;
    auto kind = gen::weightedElement<int>({{44, O_NOTEON}, {12, O_NOTEOFF}, {14, O_CC}, {6, O_PATCH}, {1, O_BEND}, {1, O_PANIC}, {1, O_RESETSTATE}, {8, O_ADVANCE}, {1, O_ARP}, {1, O_ALLOCMODE}});
    return gen::map(gen::tuple(kind, rng<int>(0, 1000), rng<int>(0, 1000), rng<int>(0, 1000)),
                    [](std::tuple<int, int, int, int> t) {
                        int k = std::get<0>(t), a = std::get<1>(t), b = std::get<2>(t), c = std::get<3>(t);
                        Op p; p.kind = k;
                        static const int chs[] = {0, 0, 1, 9};
                        static const int keys[] = {60, 61, 62, 63, 64, 65, 66, 67, 36, 38};
                        switch(k) {
                        case O_NOTEON: p.a = chs[a % 4]; p.b = keys[b % 10]; p.c = 1 + c % 127; break;
                        case O_NOTEOFF: p.a = chs[a % 4]; p.b = keys[b % 10]; break;
                        case O_CC: { static const int cc[] = {64, 64, 64, 66, 66, 123, 121, 120}; p.a = chs[a % 4]; p.b = cc[b % 8]; p.c = (c & 1) ? 127 : 0; break; }
                        case O_PATCH: p.a = chs[a % 4]; p.b = b % 2; break;
                        case O_BEND: p.a = chs[a % 4]; p.b = (b * 37) % 16384; break;
                        case O_ADVANCE: { static const int ms[] = {1, 1, 5, 10, 35, 100}; p.a = ms[a % 6]; break; }
                        case O_ARP: p.a = (a % 4) != 0; break;
                        case O_ALLOCMODE: p.a = (a % 4) - 1; break;
                        default: break;
                        }
                        return p;
                    });
}
namespace rc { template <> struct Arbitrary<Op> { static Gen<Op> arbitrary() { return genOp(); } }; }
namespace vf { void showValue(const Op &p, std::ostream &os) { os << kOpName[p.kind] << "(" << p.a << "," << p.b << "," << p.c << ")"; } }

static void account(const Case &c, const Info &info, const std::string &s) {
    Stats &st = ctx().stats;
    bool nt = info.evicted || info.pedal_held || info.sost;
    st.note_case(s, nt);
    if(info.evicted) st.label("evicted_while_all_busy");
    if(info.arpeggio) st.label("arpeggio(>1 user)");
    if(info.sost) st.label("sostenuto_held");
    if(info.pedal_held) st.label("pedal_held");
    if(info.ext) st.label("drum_extended_life");
    if(info.rebuilt) st.label("tables_rebuilt(reset/chips/emu/bank/file)");
    if(info.bank_removed_under_notes) st.label("bank_removed_while_notes_active");
    (void)c;
}

// ---------------------------------------------------------------- enumeration
static void run_enum(long depth, long shard, long shards) {
    std::vector<Op> alpha;
    int chs[2] = {0, 9}; int keys[3] = {60, 62, 36};
    for(int ch : chs) for(int k : keys) { alpha.push_back(Op{O_NOTEON, ch, k, 100}); alpha.push_back(Op{O_NOTEOFF, ch, k, 0}); }
    for(int ch : chs) { alpha.push_back(Op{O_CC, ch, 64, 127}); alpha.push_back(Op{O_CC, ch, 64, 0}); alpha.push_back(Op{O_CC, ch, 66, 127}); alpha.push_back(Op{O_CC, ch, 66, 0}); alpha.push_back(Op{O_CC, ch, 123, 0}); }
    alpha.push_back(Op{O_PANIC, 0, 0, 0}); alpha.push_back(Op{O_ADVANCE, 10, 0, 0}); alpha.push_back(Op{O_ADVANCE, 50, 0, 0});
    alpha.push_back(Op{O_ARP, 1, 0, 0}); alpha.push_back(Op{O_ARP, 0, 0, 0});
    Stats &st = ctx().stats;
    std::string al; for(const Op &p : alpha) { al += kOpName[p.kind]; al += "(" + std::to_string(p.a) + "," + std::to_string(p.b) + "," + std::to_string(p.c) + ") "; }
    st.notes.push_back("enum alphabet (" + std::to_string(alpha.size()) + " symbols, 1 chip, NP2 @ 8 kHz): " + al + "; all sequences of length " + std::to_string(depth));
    size_t A = alpha.size();
    uint64_t total = 1; for(long i = 0; i < depth; i++) total *= A;
    Case c; c.chips = 1; c.arp = 0; c.ops.resize((size_t)depth);
    uint64_t done = 0;
    for(uint64_t n = 0; n < total; n++) {
        if((long)(n % (uint64_t)shards) != shard) continue;
        uint64_t m = n;
        for(long i = 0; i < depth; i++) { c.ops[(size_t)i] = alpha[m % A]; m /= A; }
        Info info;
        begin_case("");
        try { run(c, info); }
        catch(const Fail &f) { ctx().failures++; save_failing_case(ser(c), f.msg); st.write(ctx().stats_path); return; }
        bool nt = info.pedal_held || info.sost || info.ext;
        st.evaluations++;
        if(nt) { st.nontrivial_total++; st.distinct_by_construction++; if(st.samples.size() < 2 && done % 1000 == 7) st.samples.push_back(ser(c)); }
        done++;
    }
    st.exhaustive = true;
    st.num("enum_depth", (double)depth); st.num("enum_sequences", (double)done);
}

int main(int argc, char **argv) {
    parse_args(argc, argv);
    Ctx &c = ctx();
    if(c.mode == "replay") return replay_main([](const std::string &s) { Info info; run(deser(s), info); });
    if(c.mode == "enum") { run_enum(c.depth ? c.depth : 3, c.shard, c.shards); return finish(); }
    int maxlen = (int)c.opt("maxlen", 120);
    pbt("c04_bookkeeping_invariants", c.n, maxlen, [](int chipsel, bool arp, const std::vector<Op> &ops) {
        Case cs; cs.chips = 1 + ((chipsel < 0 ? -chipsel : chipsel) % 2); cs.arp = arp; cs.ops = ops;
        std::string s = ser(cs);
        run_case(s, [&] { Info info; run(cs, info); account(cs, info, s); });
    });
    pbt("c04_bookkeeping_invariants_deep", c.n, maxlen, [maxlen]() {
        Case cs; cs.chips = 1; cs.arp = *rc::gen::weightedElement<int>({{3, 1}, {1, 0}});
        cs.ops = *rc::gen::container<std::vector<Op>>(genOpDeep());
        std::string s = ser(cs);
        run_case(s, [&] { Info info; run(cs, info); account(cs, info, s); ctx().stats.label("profile:deep"); });
    });
    return finish();
}
