// C11: loudness controls are monotone and stay within the chip's level range.
// Engine: bounded-exhaustive grid enumeration (quick: boundary-biased sub-grid + full single-axis lines; thorough: the full
// 128^3 grid) driven through the public API; oracle on the total-level register writes seen by the tap.
#include "common/inst.hpp"
#include <array>
#include <map>

using namespace vf;

static const int kTLsets[3][4] = {{0, 0, 0, 0}, {0, 63, 64, 127}, {126, 1, 127, 20}};
// carriers per FM algorithm from the YM2612 manual, by slot S1..S4; register order is S1,S3,S2,S4 (0x40,0x44,0x48,0x4C)
static const bool kCarrierSlot[8][4] = {{0, 0, 0, 1}, {0, 0, 0, 1}, {0, 0, 0, 1}, {0, 0, 0, 1}, {0, 1, 0, 1}, {0, 1, 1, 1}, {0, 1, 1, 1}, {1, 1, 1, 1}};
static const int kRegSlot[4] = {0, 2, 1, 3}; // register index k -> slot number (0-based)

struct Cfg { int model, alg, tlset, smod, fullrange, master, bright; };
static std::string show(const Cfg &c, int vel, int vol, int expr) {
    return fmt("model=%d alg=%d tlset=%d scale_mod=%d full_range=%d master=%d brightness=%d vel=%d cc7=%d cc11=%d", c.model, c.alg, c.tlset, c.smod, c.fullrange, c.master, c.bright, vel, vol, expr);
}

struct Rig {
    Inst I; OPN2_Bank bank;
    void start() {
        tap_install(); tap().log.clear(); regs.clear(); absorbed = 0; have_cur = false;
        I.open(8000);
        opn2_switchEmulator(I.dev, EMU_NP2); opn2_setNumChips(I.dev, 1);
        VCHECK(api_get_bank(I.dev, 0, 0, 0, &bank), "cannot create bank");
    }
    void configure(const Cfg &c) {
        OPN2_Instrument in = make_ins(0, 0, 0, 0, 1000, 10, (uint8_t)c.alg);
        for(int k = 0; k < 4; k++) in.operators[k].level_40 = (uint8_t)kTLsets[c.tlset][k];
        in.operators[0].decay2_70 = 0; in.operators[1].decay2_70 = 0;
        VCHECK(opn2_setInstrument(I.dev, &bank, 0, &in) == 0, "setInstrument failed");
        opn2_setVolumeRangeModel(I.dev, c.model);
        opn2_setScaleModulators(I.dev, c.smod);
        opn2_setFullRangeBrightness(I.dev, c.fullrange);
        opn2_rt_resetState(I.dev);
        uint8_t mv[8] = {0xF0, 0x7F, 0x7F, 0x04, 0x01, 0x00, (uint8_t)c.master, 0xF7};
        VCHECK(opn2_rt_systemExclusive(I.dev, mv, 8) == 1, "master volume SysEx rejected");
        opn2_rt_controllerChange(I.dev, 0, 74, (OPN2_UInt8)c.bright);
    }
    // The four total-level registers of the chip channel that was keyed on last, as the chip holds them now (the last value
    // written to each, whenever that was): an implementation is free to skip writes that would not change a register.
    std::map<unsigned, int> regs; size_t absorbed = 0; unsigned cur_chip = 0, cur_port = 0, cur_cc = 0; bool have_cur = false;
    void absorb() {
        TapState &t = tap();
        for(; absorbed < t.log.size(); absorbed++) {
            const TapRec &w = t.log[absorbed];
            if(w.kind == 2) continue;
            if(w.reg >= 0x40 && w.reg <= 0x4F) {
                VCHECK(w.val <= 127, "total-level value %u written to register 0x%02X is outside 0..127", w.val, w.reg);
                regs[((unsigned)w.chip << 16) | ((unsigned)w.port << 8) | w.reg] = (int)w.val;
            }
            if(w.reg == 0x28 && w.port == 0 && (w.val & 0xF0)) { unsigned code = w.val & 7; cur_chip = w.chip; cur_port = code >> 2; cur_cc = code & 3; have_cur = true; }
        }
    }
    void clear_log() { absorb(); tap().log.clear(); absorbed = 0; }
    std::array<int, 4> last_tl(size_t) {
        absorb();
        std::array<int, 4> r = {{-1, -1, -1, -1}};
        if(!have_cur) return r;
        for(int k = 0; k < 4; k++) { auto it = regs.find((cur_chip << 16) | (cur_port << 8) | (0x40 + cur_cc + 4 * (unsigned)k)); if(it != regs.end()) r[(size_t)k] = it->second; }
        return r;
    }
};

struct Acc { uint64_t points = 0, nontrivial = 0; std::vector<std::string> samples; };

static bool is_carrier(int alg, int k) { return kCarrierSlot[alg][kRegSlot[k]]; }

// Evaluates the (vel, vol, expr) sub-grid given by the three axis lists for one configuration.
static void sweep(Rig &R, const Cfg &c, const std::vector<int> &vels, const std::vector<int> &vols, const std::vector<int> &exprs, Acc &acc) {
    R.configure(c);
    size_t nv = vels.size(), nc = vols.size(), ne = exprs.size();
    std::vector<std::array<int8_t, 4>> grid(nv * nc * ne);
    for(size_t a = 0; a < nv; a++) {
        int vel = vels[a];
        opn2_rt_controllerChange(R.I.dev, 0, 7, (OPN2_UInt8)vols[0]); opn2_rt_controllerChange(R.I.dev, 0, 11, (OPN2_UInt8)exprs[0]);
        R.clear_log();
        int r = opn2_rt_noteOn(R.I.dev, 0, 60, (OPN2_UInt8)vel);
        VCHECK(r == 1, "note-on rejected (%s)", show(c, vel, vols[0], exprs[0]).c_str());
        for(size_t b = 0; b < nc; b++) {
            if(b > 0) R.clear_log();
            opn2_rt_controllerChange(R.I.dev, 0, 7, (OPN2_UInt8)vols[b]);
            for(size_t e = 0; e < ne; e++) {
                size_t from = (b == 0 && e == 0) ? 0 : tap().log.size();
                if(!(b == 0 && e == 0)) opn2_rt_controllerChange(R.I.dev, 0, 11, (OPN2_UInt8)exprs[e]);
                else if(false) {}
                std::array<int, 4> tl = R.last_tl(from);
                if(b == 0 && e == 0) R.clear_log();
                int vol = vols[b], expr = exprs[e];
                bool nt = false;
                for(int k = 0; k < 4; k++) {
                    VCHECK(tl[k] >= 0, "no total-level write for operator register 0x%02X (%s)", 0x40 + 4 * k, show(c, vel, vol, expr).c_str());
                    int ins = kTLsets[c.tlset][k];
                    bool car = is_carrier(c.alg, k);
                    if(car) {
                        if(vol == 0 || expr == 0 || c.master == 0)
                            VCHECK(tl[k] == 127, "carrier (reg 0x%02X) not silenced: TL %d (%s)", 0x40 + 4 * k, tl[k], show(c, vel, vol, expr).c_str());
                    } else if(!c.smod) {
                        bool bright_full = c.fullrange ? (c.bright == 127) : (c.bright >= 64);
                        if(bright_full) VCHECK(tl[k] == ins, "modulator (reg 0x%02X) changed to %d from instrument TL %d without scaling/brightness (%s)", 0x40 + 4 * k, tl[k], ins, show(c, vel, vol, expr).c_str());
                        else VCHECK(tl[k] >= ins, "reduced brightness made modulator (reg 0x%02X) louder: %d < instrument TL %d (%s)", 0x40 + 4 * k, tl[k], ins, show(c, vel, vol, expr).c_str());
                    }
                    if(tl[k] != 127 && tl[k] != ins) nt = true;
                    grid[(a * nc + b) * ne + e][(size_t)k] = (int8_t)tl[k];
                }
                acc.points++;
                if(nt) { acc.nontrivial++; if(acc.samples.size() < 3 && (acc.samples.empty() || (acc.points % 7919) == 1)) acc.samples.push_back(show(c, vel, vol, expr) + fmt(" -> TL %d %d %d %d", tl[0], tl[1], tl[2], tl[3])); }
            }
        }
        opn2_rt_noteOff(R.I.dev, 0, 60);
    }
    // monotonicity along each axis (axis lists are ascending): attenuation never increases when a control increases
    for(int k = 0; k < 4; k++) {
        if(!is_carrier(c.alg, k) && !c.smod) continue; // unscaled modulators do not depend on the volume controls
        for(size_t a = 0; a < nv; a++) for(size_t b = 0; b < nc; b++) for(size_t e = 0; e < ne; e++) {
            int cur = grid[(a * nc + b) * ne + e][(size_t)k];
            if(a + 1 < nv) { int nx = grid[((a + 1) * nc + b) * ne + e][(size_t)k]; VCHECK(nx <= cur, "reg 0x%02X: TL rises %d -> %d when velocity goes %d -> %d (%s)", 0x40 + 4 * k, cur, nx, vels[a], vels[a + 1], show(c, vels[a], vols[b], exprs[e]).c_str()); }
            if(b + 1 < nc) { int nx = grid[(a * nc + b + 1) * ne + e][(size_t)k]; VCHECK(nx <= cur, "reg 0x%02X: TL rises %d -> %d when CC7 goes %d -> %d (%s)", 0x40 + 4 * k, cur, nx, vols[b], vols[b + 1], show(c, vels[a], vols[b], exprs[e]).c_str()); }
            if(e + 1 < ne) { int nx = grid[(a * nc + b) * ne + e + 1][(size_t)k]; VCHECK(nx <= cur, "reg 0x%02X: TL rises %d -> %d when CC11 goes %d -> %d (%s)", 0x40 + 4 * k, cur, nx, exprs[e], exprs[e + 1], show(c, vels[a], vols[b], exprs[e]).c_str()); }
        }
    }
}

// TLs for one fixed (vel,vol,expr) as a function of master volume / brightness
static std::array<int, 4> one_point(Rig &R, const Cfg &c, int vel, int vol, int expr) {
    R.configure(c);
    opn2_rt_controllerChange(R.I.dev, 0, 7, (OPN2_UInt8)vol); opn2_rt_controllerChange(R.I.dev, 0, 11, (OPN2_UInt8)expr);
    R.clear_log();
    VCHECK(opn2_rt_noteOn(R.I.dev, 0, 60, (OPN2_UInt8)vel) == 1, "note-on rejected");
    std::array<int, 4> tl = R.last_tl(0);
    opn2_rt_noteOff(R.I.dev, 0, 60);
    return tl;
}

static std::vector<int> full_axis() { std::vector<int> v; for(int i = 0; i < 128; i++) v.push_back(i); return v; }
static std::vector<int> sub_axis(bool vel) { // boundary-biased 32-point subsample, ascending
    std::vector<int> v = {0, 1, 2, 3, 4, 7, 8, 15, 16, 31, 32, 33, 47, 48, 63, 64, 65, 79, 80, 95, 96, 97, 100, 111, 112, 119, 120, 123, 124, 125, 126, 127};
    if(vel) v.erase(v.begin()); // velocity 0 is a note-off
    return v;
}

static std::string g_cur;
static void run_block(Rig &R, Acc &acc, int model, int alg, int tl, int smod, bool thorough) {
    std::string &cur = g_cur;
    std::vector<int> fv = full_axis(); fv.erase(fv.begin());
    arm_watchdog(3600);
    // (A) volume grid at full brightness for every master volume in the property's set
    for(int master : {0, 1, 64, 127}) {
        Cfg c{model, alg, tl, smod, 0, master, 127};
        cur = show(c, -1, -1, -1);
        bool full_here = thorough || (alg == (int)(ctx().opt("seed", 1) % 8) && tl == 1 && master >= 64); // quick: the full grid for one algorithm chosen by the seed
        if(full_here) sweep(R, c, fv, full_axis(), full_axis(), acc);
        if(!thorough) {
            sweep(R, c, sub_axis(true), sub_axis(false), sub_axis(false), acc);
            // full single-axis lines through a few anchor points
            for(int av : {1, 64, 127}) for(int bv : {1, 100, 127}) {
                sweep(R, c, fv, {av}, {bv}, acc); sweep(R, c, {av}, full_axis(), {bv}, acc); sweep(R, c, {bv}, {av}, full_axis(), acc);
            }
        }
    }
    // (B) master volume monotonicity over all 128 values at a few anchor points
    for(int vel : {1, 64, 127}) for(int vol : {1, 100, 127}) {
        std::array<int, 4> prev = {{127, 127, 127, 127}};
        for(int master = 0; master < 128; master++) {
            Cfg c{model, alg, tl, smod, 0, master, 127};
            cur = show(c, vel, vol, 127);
            std::array<int, 4> t = one_point(R, c, vel, vol, 127);
            for(int k = 0; k < 4; k++) if(is_carrier(alg, k) || smod) VCHECK(t[(size_t)k] <= prev[(size_t)k] || master == 0, "reg 0x%02X: TL rises %d -> %d when master volume goes %d -> %d (%s)", 0x40 + 4 * k, prev[(size_t)k], t[(size_t)k], master - 1, master, cur.c_str());
            if(master == 0) for(int k = 0; k < 4; k++) if(is_carrier(alg, k)) VCHECK(t[(size_t)k] == 127, "master volume 0 does not silence carrier reg 0x%02X (TL %d)", 0x40 + 4 * k, t[(size_t)k]);
            prev = t; acc.points++;
        }
    }
    // (C) brightness 0..127, both range modes: lower brightness never brightens, full brightness leaves modulators alone
    for(int fr = 0; fr < 2; fr++) for(int vel : {64, 127}) {
        std::array<int, 4> prev = {{127, 127, 127, 127}};
        for(int b = 0; b < 128; b++) {
            Cfg c{model, alg, tl, smod, fr, 127, b};
            cur = show(c, vel, 100, 127);
            std::array<int, 4> t = one_point(R, c, vel, 100, 127);
            for(int k = 0; k < 4; k++) {
                if(b > 0) VCHECK(t[(size_t)k] <= prev[(size_t)k], "reg 0x%02X: TL rises %d -> %d when brightness goes %d -> %d (%s)", 0x40 + 4 * k, prev[(size_t)k], t[(size_t)k], b - 1, b, cur.c_str());
                if(!is_carrier(alg, k) && !smod) {
                    bool full = fr ? b == 127 : b >= 64;
                    if(full) VCHECK(t[(size_t)k] == kTLsets[tl][k], "modulator reg 0x%02X is %d, instrument TL %d, at full brightness %d (%s)", 0x40 + 4 * k, t[(size_t)k], kTLsets[tl][k], b, cur.c_str());
                    else VCHECK(t[(size_t)k] >= kTLsets[tl][k], "reduced brightness %d made modulator reg 0x%02X louder (%d < %d) (%s)", b, 0x40 + 4 * k, t[(size_t)k], kTLsets[tl][k], cur.c_str());
                }
            }
            prev = t; acc.points++;
            if(b < 64 && t != std::array<int, 4>{{kTLsets[tl][0], kTLsets[tl][1], kTLsets[tl][2], kTLsets[tl][3]}}) acc.nontrivial++;
        }
    }
    // (E) instruments with a velocity offset (only settable through the instrument API): the velocity axis stays monotone and in range
    for(int voff : {-100, -20, 20, 100}) {
        Cfg c{model, alg, tl, smod, 0, 127, 127};
        R.configure(c);
        { OPN2_Instrument in = make_ins(0, 0, 0, 0, 1000, 10, (uint8_t)alg); for(int k = 0; k < 4; k++) in.operators[k].level_40 = (uint8_t)kTLsets[tl][k]; in.operators[0].decay2_70 = 0; in.operators[1].decay2_70 = 0; in.midi_velocity_offset = (OPN2_SInt8)voff;
          VCHECK(opn2_setInstrument(R.I.dev, &R.bank, 0, &in) == 0, "setInstrument failed"); }
        std::array<int, 4> prev = {{127, 127, 127, 127}};
        for(int vel = 1; vel < 128; vel++) {
            cur = show(c, vel, 100, 127) + fmt(" velocity_offset=%d", voff);
            opn2_rt_controllerChange(R.I.dev, 0, 7, 100); opn2_rt_controllerChange(R.I.dev, 0, 11, 127);
            R.clear_log();
            VCHECK(opn2_rt_noteOn(R.I.dev, 0, 60, (OPN2_UInt8)vel) == 1, "note-on rejected");
            std::array<int, 4> t = R.last_tl(0);
            opn2_rt_noteOff(R.I.dev, 0, 60);
            for(int k = 0; k < 4; k++) if(is_carrier(alg, k) || smod) VCHECK(t[(size_t)k] <= prev[(size_t)k], "reg 0x%02X: TL rises %d -> %d when velocity goes %d -> %d (%s)", 0x40 + 4 * k, prev[(size_t)k], t[(size_t)k], vel - 1, vel, cur.c_str());
            prev = t; acc.points++; if(t[3] != 127) acc.nontrivial++;
        }
    }
    // (D) brightness moved on a HELD note, down and up again: the levels follow the controller in both directions, and once no
    //     reduced brightness is in force any more the modulators are back at the instrument's own levels
    for(int fr = 0; fr < 2; fr++) {
        Cfg c{model, alg, tl, smod, fr, 127, 127};
        R.configure(c);
        opn2_rt_controllerChange(R.I.dev, 0, 7, 100); opn2_rt_controllerChange(R.I.dev, 0, 11, 127);
        R.clear_log();
        VCHECK(opn2_rt_noteOn(R.I.dev, 0, 60, 100) == 1, "note-on rejected");
        std::array<int, 4> at_full = R.last_tl(0), prev = at_full;
        static const int path[] = {127, 100, 64, 63, 40, 10, 0, 5, 32, 63, 64, 90, 127, 0, 127};
        int last_b = 127;
        for(int b : path) {
            opn2_rt_controllerChange(R.I.dev, 0, 74, (OPN2_UInt8)b);
            std::array<int, 4> t = R.last_tl(0);
            Cfg cc = c; cc.bright = b; cur = show(cc, 100, 100, 127) + " (held note)";
            for(int k = 0; k < 4; k++) {
                if(b >= last_b) VCHECK(t[(size_t)k] <= prev[(size_t)k], "reg 0x%02X: TL rises %d -> %d when brightness of a held note goes %d -> %d (%s)", 0x40 + 4 * k, prev[(size_t)k], t[(size_t)k], last_b, b, cur.c_str());
                if(b <= last_b) VCHECK(t[(size_t)k] >= prev[(size_t)k], "reg 0x%02X: lower brightness made a held note brighter: TL %d -> %d when brightness goes %d -> %d (%s)", 0x40 + 4 * k, prev[(size_t)k], t[(size_t)k], last_b, b, cur.c_str());
                bool full = fr ? b == 127 : b >= 64;
                if(full) VCHECK(t[(size_t)k] == at_full[(size_t)k], "reg 0x%02X of a held note is %d at full brightness %d after the brightness had been reduced; it was %d before (%s)", 0x40 + 4 * k, t[(size_t)k], b, at_full[(size_t)k], cur.c_str());
                if(full && !is_carrier(alg, k) && !smod) VCHECK(t[(size_t)k] == kTLsets[tl][k], "modulator reg 0x%02X of a held note is %d at full brightness %d, instrument TL %d (%s)", 0x40 + 4 * k, t[(size_t)k], b, kTLsets[tl][k], cur.c_str());
            }
            prev = t; last_b = b; acc.points++; if(!(fr ? b == 127 : b >= 64)) acc.nontrivial++;
        }
        opn2_rt_noteOff(R.I.dev, 0, 60);
    }
}

int main(int argc, char **argv) {
    parse_args(argc, argv);
    Ctx &cx = ctx();
    bool thorough = cx.opts("grid", "quick") == "full";
    Stats &st = cx.stats;
    Rig R; Acc acc;
    if(cx.mode == "replay")
        return replay_main([&](const std::string &s) {
            int model = 1, alg = 0, tl = 0, smod = 0; char grid[16] = "quick";
            sscanf(s.c_str(), "c11 grid=%15s model=%d alg=%d tlset=%d scale_mod=%d", grid, &model, &alg, &tl, &smod);
            R.start(); run_block(R, acc, model, alg, tl, smod, std::string(grid) == "full");
        });
    try {
        R.start();
        long idx = 0;
        for(int model = 1; model <= 5; model++) for(int alg = 0; alg < 8; alg++) for(int tl = 0; tl < 3; tl++) for(int smod = 0; smod < 2; smod++) {
            if((idx++ % cx.shards) != cx.shard) continue;
            run_block(R, acc, model, alg, tl, smod, thorough);
        }
    } catch(const Fail &f) {
        cx.failures++;
        save_failing_case(std::string("c11 grid=") + (thorough ? "full " : "quick ") + g_cur + "\n", f.msg);
    }
    st.evaluations = acc.points; st.nontrivial_total = acc.nontrivial; st.distinct_by_construction = acc.nontrivial;
    st.samples = acc.samples;
    st.exhaustive = thorough && cx.failures == 0;
    st.notes.push_back(thorough ? "full grid: velocity 1..127 x CC7 0..127 x CC11 0..127 for master in {0,1,64,127}, 5 volume models x 8 algorithms x 3 TL sets x modulator scaling on/off; master 0..127 and brightness 0..127 lines"
                                : "sub-grid: 31x32x32 boundary-biased points + full single-axis lines, same configurations; master 0..127 and brightness 0..127 lines");
    return finish();
}
