// C05: a note sounds exactly while its key, the pedal or sostenuto holds it.
// Engine: rapidcheck op sequences; oracle = reference model of the MIDI hold rules written from the property text,
// compared with the set of (MIDI channel, key) pairs that own a keyed-on chip channel after EVERY call.
#include "common/ops.hpp"
#include "common/rc_util.hpp"
#include <set>
#include <map>

using namespace vf;

static const long RATE = 8000;
static const double DRUM_MIN = 0.030;

struct Case { int chips = 1; std::vector<Op> ops; };
static std::string ser(const Case &c) { std::ostringstream o; o << "cfg " << c.chips << "\n" << ser_ops(c.ops); return o.str(); }
static Case deser(const std::string &s) { Case c; std::istringstream in(s); std::string w; in >> w >> c.chips; c.ops = deser_ops(in); return c; }

// ---------------------------------------------------------------- reference model
struct MInst { bool down = true, pedal = false, sost = false, drum = false, pending_off = false; double ttl_end = 0; };
struct Model {
    std::map<std::pair<int, int>, std::vector<MInst>> inst; // (ch,key) -> instances (each occupies one chip channel)
    bool pedal[16] = {false};
    int patch[16] = {0};
    double now = 0;
    bool outlived = false, deferred = false;

    static bool blank_prog(int ch, int key, int patch_) { return ch == 9 ? key == 40 : (patch_ == 6 || patch_ == 7); }
    size_t occupancy() const { size_t n = 0; for(auto &kv : inst) n += kv.second.size(); return n; }
    std::set<std::pair<int, int>> sounding() const { std::set<std::pair<int, int>> s; for(auto &kv : inst) if(!kv.second.empty()) s.insert(kv.first); return s; }
    bool any_down() const { for(auto &kv : inst) for(auto &i : kv.second) if(i.down) return true; return false; }

    // key-up of one instance under the current pedal state; returns false when the instance ends
    bool release(MInst &i, int ch) {
        i.down = false; i.pending_off = false;
        if(pedal[ch]) i.pedal = true;
        if(i.pedal || i.sost) { outlived = true; return true; }
        return false;
    }
    void key_up(int ch, int key, bool force) {
        auto it = inst.find({ch, key}); if(it == inst.end()) return;
        auto &v = it->second;
        for(size_t k = 0; k < v.size(); k++) {
            if(!v[k].down) continue;
            if(!force && v[k].drum && now < v[k].ttl_end) { v[k].pending_off = true; deferred = true; continue; }
            if(!release(v[k], ch)) { v.erase(v.begin() + (long)k); k--; }
        }
    }
    void all_keys_up_direct(int ch) { // CC123 / CC120: no drum deferral
        for(auto &kv : inst) if(kv.first.first == ch) { auto &v = kv.second; for(size_t k = 0; k < v.size(); k++) if(v[k].down) { if(!release(v[k], ch)) { v.erase(v.begin() + (long)k); k--; } } }
    }
    void end_held(int ch, bool ped, bool sos) { // ch < 0: all channels
        for(auto &kv : inst) if(ch < 0 || kv.first.first == ch) {
            auto &v = kv.second;
            for(size_t k = 0; k < v.size(); k++) {
                if(ped) v[k].pedal = false;
                if(sos) v[k].sost = false;
                if(!v[k].down && !v[k].pedal && !v[k].sost) { v.erase(v.begin() + (long)k); k--; }
            }
        }
    }
    void advance(double s) {
        now += s;
        for(auto &kv : inst) { auto &v = kv.second; for(size_t k = 0; k < v.size(); k++) if(v[k].pending_off && now >= v[k].ttl_end) { if(!release(v[k], kv.first.first)) { v.erase(v.begin() + (long)k); k--; } } }
    }
    // returns expected return value of opn2_rt_noteOn
    int note_on(int ch, int key, int vel) {
        key_up(ch, key, vel != 0);
        if(vel == 0) return 0;
        if(blank_prog(ch, key, patch[ch])) return 0;
        MInst i; i.drum = (ch == 9); i.ttl_end = now + DRUM_MIN;
        inst[{ch, key}].push_back(i);
        return 1;
    }
    void apply(const Op &p) {
        switch(p.kind) {
        case O_NOTEON: note_on(p.a, p.b, p.c); break;
        case O_NOTEOFF: key_up(p.a, p.b, false); break;
        case O_PATCH: patch[p.a] = p.b; break;
        case O_ADVANCE: advance(p.a / 1000.0); break;
        case O_PANIC: for(auto &kv : inst) { std::pair<int, int> k = kv.first; key_up(k.first, k.second, false); } end_held(-1, true, true); break;
        case O_RESETSTATE: for(int c = 0; c < 16; c++) pedal[c] = false; end_held(-1, true, true); break; // generated only while no key is down
        case O_CC:
            switch(p.b) {
            case 64: pedal[p.a] = p.c >= 64; if(!pedal[p.a]) end_held(p.a, true, false); break;
            case 66: if(p.c >= 64) { for(auto &kv : inst) if(kv.first.first == p.a) for(auto &i : kv.second) if(i.down && !i.pedal) i.sost = true; } else end_held(p.a, false, true); break;
            case 120: case 123: all_keys_up_direct(p.a); break;
            case 121: pedal[p.a] = false; end_held(p.a, true, true); break;
            }
            break;
        }
    }
};

// ---------------------------------------------------------------- sanitising the generated history (construction, not rejection)
// keeps: occupancy <= channels-1 after every note-on; CC66>=64 only while sostenuto is off; reset-state only while no key is down
static std::vector<Op> sanitize(const std::vector<Op> &in, int chips) {
    Model m; std::vector<Op> out; bool sost_on[16] = {false};
    size_t limit = (size_t)chips * 6 - 1;
    for(const Op &p : in) {
        if(p.kind == O_NOTEON && p.c > 0) {
            Model t = m; t.note_on(p.a, p.b, p.c);
            if(t.occupancy() > limit) continue;
        }
        if(p.kind == O_CC && p.b == 66) { if(p.c >= 64) { if(sost_on[p.a]) continue; sost_on[p.a] = true; } else sost_on[p.a] = false; }
        if(p.kind == O_CC && p.b == 121) sost_on[p.a] = false;
        if(p.kind == O_RESETSTATE) { if(m.any_down()) continue; for(bool &b : sost_on) b = false; }
        if(p.kind == O_PANIC) { /* held notes end; the sostenuto pedal position is unknown to the synth afterwards */ for(bool &b : sost_on) b = false; }
        m.apply(p); out.push_back(p);
    }
    return out;
}

struct Info { bool outlived = false, deferred = false; size_t steps = 0; };

static std::set<std::pair<int, int>> observed(World &W) {
    std::set<std::pair<int, int>> s;
    Snapshot sn = take_snapshot(W.I);
    for(size_t c = 0; c < sn.nchan; c++) {
        bool keyed = c < W.keys.on.size() && W.keys.on[c];
        if(keyed) for(const SnapUser &u : sn.users[c]) s.insert({(int)u.midch, (int)u.note});
    }
    return s;
}
static std::string show(const std::set<std::pair<int, int>> &s) { std::string o = "{"; for(auto &p : s) o += std::to_string(p.first) + "/" + std::to_string(p.second) + " "; return o + "}"; }

static void run(const Case &c, Info &info) {
    World W; W.start(RATE, EMU_NP2, c.chips);
    // blank entries: melodic programs 6,7 and drum key 40
    { OPN2_Bank b; OPN2_Instrument bl = blank_ins();
      if(api_get_bank(W.I.dev, 0, 0, 0, &b, 0)) { opn2_setInstrument(W.I.dev, &b, 6, &bl); opn2_setInstrument(W.I.dev, &b, 7, &bl); }
      if(api_get_bank(W.I.dev, 1, 0, 0, &b, 0)) opn2_setInstrument(W.I.dev, &b, 40, &bl); }
    Model m;
    std::vector<Op> ops = c.ops;
    for(size_t i = 0; i < ops.size(); i++) {
        const Op &p = ops[i];
        int exp_ret = -1;
        if(p.kind == O_NOTEON) { Model t = m; exp_ret = t.note_on(p.a, p.b, p.c); }
        m.apply(p); W.apply(p);
        if(p.kind == O_NOTEON) VCHECK(W.last_ret == exp_ret, "step %zu: note-on %d/%d vel %d returned %d, the rules predict %d", i + 1, p.a, p.b, p.c, W.last_ret, exp_ret);
        std::set<std::pair<int, int>> exp = m.sounding(), got = observed(W);
        VCHECK(exp == got, "step %zu (%s %d %d %d): sounding pairs %s but the MIDI rules predict %s", i + 1, kOpName[p.kind], p.a, p.b, p.c, show(got).c_str(), show(exp).c_str());
        info.steps++;
    }
    info.outlived = m.outlived; info.deferred = m.deferred;
    // final clause: release every key and pedal, generate 30 ms (+ one period): nothing may stay keyed on
    for(auto &pr : m.sounding()) { opn2_rt_noteOff(W.I.dev, (OPN2_UInt8)pr.first, (OPN2_UInt8)pr.second); }
    for(int ch = 0; ch < 16; ch++) { opn2_rt_controllerChange(W.I.dev, (OPN2_UInt8)ch, 64, 0); opn2_rt_controllerChange(W.I.dev, (OPN2_UInt8)ch, 66, 0); }
    W.drain_tap();
    W.advance_ms(30 + 65); W.drain_tap();
    std::set<std::pair<int, int>> left = observed(W);
    VCHECK(left.empty(), "stuck notes: after releasing every key and pedal and 30 ms of audio %s still own a keyed-on chip channel", show(left).c_str());
    for(size_t k = 0; k < W.keys.on.size(); k++) VCHECK(!W.keys.on[k], "stuck note: chip channel %zu is still keyed on after everything was released", k);
}

static rc::Gen<Op> genOp() {
    using namespace rc;
    auto kind = gen::weightedElement<int>({{30, O_NOTEON}, {18, O_NOTEOFF}, {22, O_CC}, {4, O_PATCH}, {12, O_ADVANCE}, {2, O_PANIC}, {2, O_RESETSTATE}});
    return gen::map(gen::tuple(kind, rng<int>(0, 1000), rng<int>(0, 1000), rng<int>(0, 1000)), [](std::tuple<int, int, int, int> t) {
        int k = std::get<0>(t), a = std::get<1>(t), b = std::get<2>(t), c = std::get<3>(t);
        static const int chs[] = {0, 1, 9, 0, 9};
        Op p; p.kind = k; int ch = chs[a % 5];
        static const int mk[] = {60, 62, 64}; static const int dk[] = {36, 38, 40};
        int key = (ch == 9) ? dk[b % 3] : mk[b % 3];
        switch(k) {
        case O_NOTEON: p.a = ch; p.b = key; p.c = (c % 9 == 0) ? 0 : 1 + c % 127; break;
        case O_NOTEOFF: p.a = ch; p.b = key; break;
        case O_CC: { static const int cc[] = {64, 64, 64, 66, 66, 120, 121, 123}; static const int val[] = {0, 127, 63, 64}; p.a = ch; p.b = cc[b % 8]; p.c = val[c % 4]; break; }
        case O_PATCH: { static const int pr[] = {0, 1, 6, 7}; p.a = ch; p.b = pr[b % 4]; break; }
        case O_ADVANCE: { static const int ms[] = {7, 11, 40, 100, 7}; p.a = ms[a % 5]; break; } // never sums to exactly 30 ms
        default: break;
        }
        return p;
    });
}
namespace rc { template <> struct Arbitrary<Op> { static Gen<Op> arbitrary() { return genOp(); } }; }
namespace vf { void showValue(const Op &p, std::ostream &os) { os << kOpName[p.kind] << "(" << p.a << "," << p.b << "," << p.c << ")"; } }

int main(int argc, char **argv) {
    parse_args(argc, argv);
    Ctx &c = ctx();
    if(c.mode == "replay") return replay_main([](const std::string &s) { Info info; Case cs = deser(s); cs.ops = sanitize(cs.ops, cs.chips); run(cs, info); });
    int maxlen = (int)c.opt("maxlen", 80);
    pbt("c05_hold_rules_vs_model", c.n, maxlen, [](bool two, const std::vector<Op> &raw) {
        Case cs; cs.chips = two ? 2 : 1; cs.ops = sanitize(raw, cs.chips);
        std::string s = ser(cs);
        run_case(s, [&] {
            Info info; run(cs, info);
            Stats &st = ctx().stats;
            st.note_case(s, info.outlived || info.deferred);
            if(info.outlived) st.label("note_outlived_key(pedal/sostenuto)");
            if(info.deferred) st.label("drum_release_deferred");
            st.addnum("steps_compared", (double)info.steps);
        });
    });
    return finish();
}
