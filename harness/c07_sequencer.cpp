// C07: the sequencer delivers every file event once, in order, at the right time.
// Engine: rapidcheck-generated SMF structures + configurations; oracle: independent reference interpreter (exact rational
// tempo map over the generated structure) compared with the raw-event hook stream, positions, gating and audio-frame timing.
#include "common/inst.hpp"
#include "common/smf.hpp"
#include "common/rc_util.hpp"
#include "common/smf_gen.hpp"
#include <set>
#include <cmath>

using namespace vf;

struct Cfg { double mult = 1.0; int audio = 0; int gran_sel = 0; int step_policy = 0; int step_sel = 0; int solo = -1; unsigned track_off_mask = 0; unsigned chan_off_mask = 0; int rate_sel = 0; std::vector<int> req; unsigned late_off_mask = 0; int late_after = 0; /* channels disabled in the middle of playback, after that many tick calls */ };
struct Case { SSong song; Cfg cfg; };
static const double kGran[] = {1e-6, 1.0 / 44100, 1e-3};
static const double kStep[] = {1e-4, 1e-3, 0.01, 0.1, 1.0, 7.5};
static const long kRate[] = {8000, 22050, 44100};

static std::string ser(const Case &c) {
    std::ostringstream o; o << "cfg " << c.cfg.mult << " " << c.cfg.audio << " " << c.cfg.gran_sel << " " << c.cfg.step_policy << " " << c.cfg.step_sel << " " << c.cfg.solo << " " << c.cfg.track_off_mask << " " << c.cfg.chan_off_mask << " " << c.cfg.rate_sel << " " << c.cfg.req.size();
    for(int r : c.cfg.req) o << " " << r;
    o << " late " << c.cfg.late_off_mask << " " << c.cfg.late_after;
    o << "\n" << smf_ser(c.song);
    return o.str();
}
static Case deser(const std::string &s) {
    Case c; std::istringstream in(s); std::string w; size_t nr = 0;
    in >> w >> c.cfg.mult >> c.cfg.audio >> c.cfg.gran_sel >> c.cfg.step_policy >> c.cfg.step_sel >> c.cfg.solo >> c.cfg.track_off_mask >> c.cfg.chan_off_mask >> c.cfg.rate_sel >> nr;
    for(size_t i = 0; i < nr; i++) { int r; in >> r; c.cfg.req.push_back(r); }
    { std::streampos at = in.tellg(); std::string t; if(in >> t && t == "late") in >> c.cfg.late_off_mask >> c.cfg.late_after; else { in.clear(); in.seekg(at); } } // older case files have no such field
    c.song = smf_deser(in);
    return c;
}

// ---------------------------------------------------------------- delivered / expected events
struct Ev { int type = 0, sub = 0, ch = 0; std::vector<uint8_t> data; int track = -1; uint64_t tick = 0; double tau = 0; int file_idx = 0;
            // delivery
            double T = 0, Tprev = 0; double tell = 0; uint64_t frame = 0; long call = 0; };
static bool same_ev(const Ev &a, const Ev &b) { return a.type == b.type && a.sub == b.sub && a.ch == b.ch && a.data == b.data; }
static std::string show(const Ev &e) { return fmt("type %02X sub %02X ch %d data %s", e.type, e.sub, e.ch, hex(e.data.data(), e.data.size()).c_str()); }
enum Cls { C_SYSEX, C_NOTEOFF, C_META_MARKER, C_CTRL, C_NOTEON, C_OTHER };
static Cls cls_of(const Ev &e) {
    if(e.type == 0xF0) return C_SYSEX;
    if(e.type == 0x08) return C_NOTEOFF;
    if(e.type == 0x09) return C_NOTEON;
    if(e.type == 0x0B || e.type == 0x0C || e.type == 0x0E || e.type == 0x0D) return C_CTRL;
    if(e.type == 0xFF && e.sub == 0x06) return C_META_MARKER;
    return C_OTHER;
}

struct Rec { std::vector<Ev> got; double T = 0, Tprev = 0; long call = 0; OPN2_MIDIPlayer *dev = nullptr; };
static void raw_hook(void *ud, OPN2_UInt8 type, OPN2_UInt8 subtype, OPN2_UInt8 channel, const OPN2_UInt8 *data, size_t len) {
    Rec *r = (Rec *)ud; Ev e; e.type = type; e.sub = subtype; e.ch = channel; if(len) e.data.assign(data, data + len);
    e.T = r->T; e.Tprev = r->Tprev; e.call = r->call; e.tell = opn2_positionTell(r->dev); e.frame = tap().frames;
    r->got.push_back(e);
}

// expected stream of one track from the generated structure
static std::vector<Ev> expected_track(const SSong &s, size_t k, const TempoMap &tm) {
    std::vector<Ev> v; const STrack &t = s.tracks[k];
    for(size_t i = 0; i < t.ev.size(); i++) {
        const SEv &e = t.ev[i]; Ev x; x.track = (int)k; x.tick = e.tick; x.file_idx = (int)i;
        if(e.status == 0xFF) { x.type = 0xFF; x.sub = e.meta; x.data = e.data; }
        else if(e.status == 0xF0 || e.status == 0xF7) { x.type = 0xF0; x.data.push_back(e.status); x.data.insert(x.data.end(), e.data.begin(), e.data.end()); }
        else { x.type = e.status >> 4; x.ch = e.status & 15; x.data = e.data; if(x.type == 0x09 && e.data.size() == 2 && e.data[1] == 0) x.type = 0x08; }
        v.push_back(x);
    }
    // an End-of-Track standing alone at its tick is delivered with the preceding event (trailing silence is skipped)
    if(!v.empty() && v.back().type == 0xFF && v.back().sub == 0x2F) {
        size_t n = v.size();
        bool alone = (n == 1) || (v[n - 2].tick != v[n - 1].tick);
        if(alone) v[n - 1].tick = (n == 1) ? 0 : v[n - 2].tick;
    }
    for(Ev &x : v) x.tau = tm.seconds(x.tick);
    return v;
}

struct Info { bool multi_track = false, tempo_change_later = false, two_classes_one_tick = false; size_t delivered = 0; bool gating = false; bool audio = false; bool cut_midnote = false; };

static void run(const Case &c, Info &info) {
    const SSong &song = c.song; const Cfg &cfg = c.cfg;
    long rate = kRate[(size_t)cfg.rate_sel % 3];
    tap_install(); tap().log.clear(); tap().frames = 0; tap().enabled = true; tap().only_synth = nullptr; tap().only_player = nullptr;
    Inst I(rate); VCHECK(I.dev, "init failed");
    opn2_switchEmulator(I.dev, EMU_NP2); opn2_setNumChips(I.dev, 2);
    install_default_banks(I.dev, 200, 20);
    tap().only_player = I.play(); tap().enabled = false; // only the frame counter is needed
    Rec rec; rec.dev = I.dev;
    opn2_setRawEventHook(I.dev, raw_hook, &rec);
    opn2_setLoopEnabled(I.dev, 0);
    opn2_setTempo(I.dev, cfg.mult);
    std::string img = smf_write(song);
    VCHECK(opn2_openData(I.dev, img.data(), (unsigned long)img.size()) == 0, "generated well-formed SMF rejected: %s", opn2_errorInfo(I.dev));
    size_t nt = song.tracks.size();
    VCHECK(opn2_trackCount(I.dev) == nt, "trackCount %zu, file has %zu", opn2_trackCount(I.dev), nt);
    // track / channel options
    std::vector<bool> track_on(nt, true);
    for(size_t k = 0; k < nt; k++) if(cfg.track_off_mask & (1u << k)) { VCHECK(opn2_setTrackOptions(I.dev, k, OPNMIDI_TrackOption_Off) == 0, "setTrackOptions off failed"); track_on[k] = false; }
    if(cfg.solo >= 0 && (size_t)cfg.solo < nt) { VCHECK(opn2_setTrackOptions(I.dev, (size_t)cfg.solo, OPNMIDI_TrackOption_Solo) == 0, "solo failed"); for(size_t k = 0; k < nt; k++) if((int)k != cfg.solo) track_on[k] = false; }
    for(int ch = 0; ch < 16; ch++) if(cfg.chan_off_mask & (1u << ch)) VCHECK(opn2_setChannelEnabled(I.dev, (size_t)ch, 0) == 0, "setChannelEnabled failed");
    info.gating = cfg.track_off_mask || cfg.solo >= 0 || cfg.chan_off_mask || cfg.late_off_mask;
    unsigned chan_off_now = cfg.chan_off_mask;

    // ---- reference
    TempoMap tm = tempo_map(song);
    std::vector<std::vector<Ev>> exp(nt);
    double latest = 0;
    for(size_t k = 0; k < nt; k++) { exp[k] = expected_track(song, k, tm); for(const Ev &e : exp[k]) latest = std::max(latest, e.tau); }
    double len = opn2_totalTimeLength(I.dev);
    VCHECK(std::fabs(len - (latest + 1.0)) <= 1e-9 * (latest + 1.0) + 1e-9, "totalTimeLength %.9f, latest event time %.9f + 1 s", len, latest);

    // ---- drive
    double g = kGran[(size_t)cfg.gran_sel % 3];
    size_t guard = 0;
    if(!cfg.audio) {
        double d = 0; size_t pol = 0;
        int policy = cfg.step_policy;
        if(policy != 0 && len / (kStep[(size_t)cfg.step_sel % 6] * cfg.mult) > 60000) policy = 0; // fixed small steps through a very long song: follow the returned delay instead
        while(!opn2_atEnd(I.dev)) {
            double step;
            if(policy == 0) step = d > g ? d : g;
            else if(policy == 1) step = kStep[(size_t)cfg.step_sel % 6];
            else step = (pol++ & 1) ? kStep[(size_t)(cfg.step_sel + pol) % 6] : (d > g ? d : g);
            rec.Tprev = rec.T; rec.T += step * cfg.mult;
            d = opn2_tickEvents(I.dev, step, g); rec.call++;
            VCHECK(d >= 0, "tickEvents returned %g", d);
            // channels switched off in the middle of playback: from this call on they contribute no notes either (what sounds on them stops)
            if(cfg.late_off_mask && rec.call == (size_t)cfg.late_after + 1 && !opn2_atEnd(I.dev)) {
                OPNMIDIplay *pl = I.play(); bool cut = false;
                for(int ch = 0; ch < 16; ch++) if(cfg.late_off_mask & (1u << ch)) { if((size_t)ch < pl->m_midiChannels.size() && !pl->m_midiChannels[(size_t)ch].activenotes.empty()) cut = true; VCHECK(opn2_setChannelEnabled(I.dev, (size_t)ch, 0) == 0, "setChannelEnabled failed"); }
                chan_off_now |= cfg.late_off_mask; if(cut) info.cut_midnote = true;
            }
            // gating: no note may be active on a disabled channel or on channels of a disabled track
            OPNMIDIplay *p = I.play();
            for(size_t ch = 0; ch < 16 && ch < p->m_midiChannels.size(); ch++) {
                bool ch_off = (chan_off_now >> ch) & 1; size_t owner = (ch / 2) % (nt ? nt : 1); bool tr_off = song.format == 1 && nt > 1 && !song.shared && ch / 2 < nt && !track_on[ch / 2];
                (void)owner;
                if(ch_off || tr_off) for(OPNMIDIplay::MIDIchannel::notes_iterator ni = p->m_midiChannels[ch].activenotes.begin(); !ni.is_end(); ++ni) {
                    if(ni->value.isOnExtendedLifeTime && ni->value.ttl > 0) continue; // a percussion note already released, inside its documented 30 ms minimum life
                    VCHECK(false, "key %u is sounding on MIDI channel %zu although its %s is disabled", (unsigned)ni->value.note, ch, ch_off ? "channel" : "track");
                }
            }
            VCHECK(++guard < 400000, "playback does not reach the end of the song (T=%.3f, length %.3f)", rec.T, len);
        }
    } else {
        info.audio = true;
        std::vector<short> buf; size_t ri = 0;
        while(!opn2_atEnd(I.dev)) {
            int n = cfg.req.empty() ? 1024 : cfg.req[ri++ % cfg.req.size()];
            buf.resize((size_t)n + 2);
            uint64_t f0 = tap().frames;
            int r = opn2_play(I.dev, n, buf.data());
            int want = n - n % 2;
            if(!opn2_atEnd(I.dev)) VCHECK(r == want, "opn2_play(%d) returned %d before the end of the song", n, r);
            VCHECK(r >= 0 && r <= want, "opn2_play(%d) returned %d", n, r);
            VCHECK(tap().frames - f0 == (uint64_t)(r / 2), "opn2_play returned %d samples but %llu frames were mixed", r, (unsigned long long)(tap().frames - f0));
            VCHECK(++guard < 2000000, "audio playback does not reach the end of the song");
        }
    }
    opn2_setRawEventHook(I.dev, NULL, NULL);

    // ---- compare
    std::vector<Ev> got = rec.got;
    // the synthetic song-begin callback (FF,01,len 0) at the very start is not a file event
    if(!got.empty() && got[0].type == 0xFF && got[0].sub == 0x01 && got[0].data.empty()) got.erase(got.begin());
    info.delivered = got.size();
    // expected events that must be delivered: all of enabled tracks + tempo/time-signature of track 0 regardless
    std::vector<std::vector<Ev>> want(nt);
    for(size_t k = 0; k < nt; k++) for(const Ev &e : exp[k]) {
        bool timing0 = (k == 0 && e.type == 0xFF && e.sub == 0x51); // 'tempo events of track 0 still apply'
        if(track_on[k] || timing0) want[k].push_back(e);
    }
    size_t total = 0; for(auto &w : want) total += w.size();
    // attribute each delivered event to a track: channel events by channel pair, stamped SysEx/meta by stamp byte, the rest belongs to track 0
    std::vector<size_t> cursor(nt, 0); // index of the first unmatched expected event per track
    std::vector<std::vector<bool>> used(nt);
    for(size_t k = 0; k < nt; k++) used[k].assign(want[k].size(), false);
    uint64_t last_tick = 0; size_t matched = 0;
    std::map<std::pair<int, int>, bool> sounding_before; // per (ch,key) at the start of the current tick group, per track bookkeeping below
    for(size_t gi = 0; gi < got.size(); gi++) {
        Ev &d = got[gi];
        int k = 0;
        if(d.type >= 0x08 && d.type <= 0x0E) k = (song.format == 0 || nt == 1) ? 0 : (song.shared && !d.data.empty() ? ((d.data.back() - 1) / 16) % (int)nt : (d.ch / 2) % (int)nt);
        else if(d.type == 0xF0 && d.data.size() >= 3) k = d.data[2] % (int)nt;
        else if(d.type == 0xFF && (d.sub >= 0x01 && d.sub <= 0x07 || d.sub == 0x7F) && !d.data.empty()) k = d.data[0] % (int)nt;
        else if(d.type == 0xFF && d.sub == 0x2F) { // End-of-Track carries no stamp: it belongs to a track whose current tick group still holds its End-of-Track
            k = -1; uint64_t best = ~0ULL; // all End-of-Track events look alike: take the candidate track that is earliest in song time
            for(size_t q = 0; q < nt; q++) {
                size_t f = 0; while(f < want[q].size() && used[q][f]) f++;
                if(f >= want[q].size()) continue;
                for(size_t j = f; j < want[q].size() && want[q][j].tick == want[q][f].tick; j++) if(!used[q][j] && want[q][j].type == 0xFF && want[q][j].sub == 0x2F) { if(want[q][f].tick < best) { best = want[q][f].tick; k = (int)q; } break; }
            }
            VCHECK(k >= 0, "delivered event #%zu is an End-of-Track although no enabled track is at the tick of its End-of-Track", gi);
        }
        std::vector<Ev> &w = want[(size_t)k];
        // current tick group of this track = ticks of the earliest unmatched event
        size_t first = 0; while(first < w.size() && used[(size_t)k][first]) first++;
        VCHECK(first < w.size(), "delivered event #%zu (%s) but track %d has no undelivered event left (delivered twice or not in the file)", gi, show(d).c_str(), k);
        uint64_t tick = w[first].tick; size_t hit = w.size();
        for(size_t j = first; j < w.size() && w[j].tick == tick; j++) if(!used[(size_t)k][j] && same_ev(w[j], d)) { hit = j; break; }
        VCHECK(hit < w.size(), "delivered event #%zu (%s) is not among the undelivered events of track %d at its current tick %llu (out of file order, altered, or duplicated); next expected there: %s",
               gi, show(d).c_str(), k, (unsigned long long)tick, show(w[first]).c_str());
        used[(size_t)k][hit] = true; matched++;
        d.track = k; d.tick = tick; d.tau = w[hit].tau; d.file_idx = w[hit].file_idx;
        VCHECK(tick >= last_tick || true, "unreachable");
        // across tracks: delivery follows song time
        if(gi > 0) VCHECK(d.tau >= got[gi - 1].tau - 1e-9 * (1 + d.tau), "event #%zu (%s, tick %llu, %.9f s) was delivered after an event of time %.9f s", gi, show(d).c_str(), (unsigned long long)tick, d.tau, got[gi - 1].tau);
        last_tick = tick;
        // (3) time
        if(!cfg.audio) {
            double slack = 1e-9 * (1.0 + d.tau);
            VCHECK(d.T >= d.tau - g / 2 - slack, "event #%zu (%s) of time %.9f s was delivered EARLY: accumulated song time %.9f s, granularity %.2e", gi, show(d).c_str(), d.tau, d.T, g);
            if(d.call > 0) VCHECK(d.Tprev < d.tau - g / 2 + slack, "event #%zu (%s) of time %.9f s was delivered LATE: it was already due at the previous call (song time %.9f s), delivered at %.9f s", gi, show(d).c_str(), d.tau, d.Tprev, d.T);
        } else {
            double real = d.tau / cfg.mult; double f = std::floor(real * (double)rate + 0.5);
            VCHECK((double)d.frame >= f - 512 - 1, "event #%zu (%s) took effect at frame %llu, more than one 512-frame period before its time (frame %.0f)", gi, show(d).c_str(), (unsigned long long)d.frame, f);
            VCHECK((double)d.frame <= f + 1, "event #%zu (%s) took effect LATE at frame %llu, its time is frame %.0f (tempo multiplier %g)", gi, show(d).c_str(), (unsigned long long)d.frame, f, cfg.mult);
        }
    }
    VCHECK(matched == total, "%zu file events of enabled tracks were expected, %zu were delivered", total, matched);
    // (2) order constraints inside one tick group of one track
    for(size_t k = 0; k < nt; k++) {
        std::set<std::pair<int, int>> on; // sounding (ch,key) before the group
        std::map<std::pair<int, int>, int> cnt; // note-ons minus note-offs (floored at 0): a key is only taken as silent when this agrees (on,on,off at one tick leaves it open)
        size_t i = 0; std::vector<Ev> seq; for(const Ev &d : got) if(d.track == (int)k) seq.push_back(d);
        while(i < seq.size()) {
            size_t j = i; while(j < seq.size() && seq[j].tick == seq[i].tick) j++;
            size_t first_on = j; int classes = 0; std::set<int> cl;
            for(size_t q = i; q < j; q++) { cl.insert(cls_of(seq[q])); if(cls_of(seq[q]) == C_NOTEON && first_on == j) first_on = q; }
            classes = (int)cl.size(); if(classes >= 2) info.two_classes_one_tick = true;
            int last_idx[6] = {-1, -1, -1, -1, -1, -1};
            for(size_t q = i; q < j; q++) {
                Cls cc = cls_of(seq[q]);
                if(cc == C_CTRL) VCHECK(q < first_on, "track %zu tick %llu: controller/program/bend event (%s) was delivered after a note-on of the same tick", k, (unsigned long long)seq[i].tick, show(seq[q]).c_str());
                if(cc == C_NOTEOFF && on.count({seq[q].ch, seq[q].data[0]})) {
                    // the (first) note-off of a key that was sounding before this tick precedes the tick's note-ons; further offs of that key end zero-length notes and follow
                    bool earlier_off = false; for(size_t z = i; z < q; z++) if(cls_of(seq[z]) == C_NOTEOFF && seq[z].ch == seq[q].ch && seq[z].data[0] == seq[q].data[0]) earlier_off = true;
                    if(!earlier_off) VCHECK(q < first_on, "track %zu tick %llu: note-off of sounding key %d/%d was delivered after a note-on of the same tick", k, (unsigned long long)seq[i].tick, seq[q].ch, seq[q].data[0]);
                }
                if(cc != C_NOTEOFF && cc != C_OTHER) { VCHECK(seq[q].file_idx > last_idx[cc], "track %zu tick %llu: events of one class were delivered out of file order (%s)", k, (unsigned long long)seq[i].tick, show(seq[q]).c_str()); last_idx[cc] = seq[q].file_idx; }
            }
            // a key that was NOT sounding: a note-off written before its note-on at this tick stays before it (plain file order)
            for(size_t q = i; q < j; q++) if(seq[q].type == 0x08 && !on.count({seq[q].ch, seq[q].data[0]}))
                for(size_t z = i; z < q; z++) if(seq[z].type == 0x09 && seq[z].ch == seq[q].ch && seq[z].data[0] == seq[q].data[0] && seq[z].file_idx > seq[q].file_idx) {
                    bool on_between = false; // unless another note-on of that key precedes the off in the file (then it may be the end of a zero-length note)
                    for(size_t y = i; y < j; y++) if(seq[y].type == 0x09 && seq[y].ch == seq[q].ch && seq[y].data[0] == seq[q].data[0] && seq[y].file_idx < seq[q].file_idx) on_between = true;
                    if(!on_between) VCHECK(false, "track %zu tick %llu: the file has note-off %d/%d BEFORE the note-on of that (silent) key, but it was delivered after it (the new note is cut at once)", k, (unsigned long long)seq[i].tick, seq[q].ch, seq[q].data[0]);
                }
            // a key that was NOT sounding in this track: a note-off that the file writes AFTER a note-on of that key at this tick (a zero-length note) is not delivered before every such note-on
            for(size_t q = i; q < j; q++) if(seq[q].type == 0x08 && !on.count({seq[q].ch, seq[q].data[0]}) && cnt[{seq[q].ch, seq[q].data[0]}] == 0) {
                bool on_before_in_file = false, on_before_delivered = false;
                for(size_t y = i; y < j; y++) if(seq[y].type == 0x09 && seq[y].ch == seq[q].ch && seq[y].data[0] == seq[q].data[0]) { if(seq[y].file_idx < seq[q].file_idx) on_before_in_file = true; if(y < q) on_before_delivered = true; }
                bool off_before_in_file = false; for(size_t y = i; y < j; y++) if(seq[y].type == 0x08 && y != q && seq[y].ch == seq[q].ch && seq[y].data[0] == seq[q].data[0] && seq[y].file_idx < seq[q].file_idx) off_before_in_file = true;
                if(on_before_in_file && !off_before_in_file) VCHECK(on_before_delivered, "track %zu tick %llu: the file has note-on %d/%d and THEN its note-off at one tick (zero-length note of a silent key), but the note-off was delivered first (the note is left hanging)", k, (unsigned long long)seq[i].tick, seq[q].ch, seq[q].data[0]);
            }
            for(size_t q = i; q < j; q++) { if(seq[q].type == 0x09) on.insert({seq[q].ch, seq[q].data[0]}); }
            // keys released in this group (in file order semantics: an off after an on of the same tick releases it)
            { std::vector<Ev> byfile(seq.begin() + (long)i, seq.begin() + (long)j); std::sort(byfile.begin(), byfile.end(), [](const Ev &a, const Ev &b) { return a.file_idx < b.file_idx; });
              for(const Ev &e : byfile) { if(e.type == 0x09) { on.insert({e.ch, e.data[0]}); cnt[{e.ch, e.data[0]}]++; } else if(e.type == 0x08) { on.erase({e.ch, e.data[0]}); int &n = cnt[{e.ch, e.data[0]}]; if(n > 0) n--; } } }
            i = j;
        }
    }
    info.multi_track = nt >= 2;
    info.tempo_change_later = false; for(auto &ch : tm.changes) if(ch.first > 0) info.tempo_change_later = true;
}

void showValue(const Case &c, std::ostream &os) { os << ser(c); }

int main(int argc, char **argv) {
    parse_args(argc, argv);
    Ctx &c = ctx();
    if(!c.kv.count("budget")) c.cpu_budget_s = 120; else c.cpu_budget_s = c.opt("budget", 120);
    if(c.mode == "replay") return replay_main([](const std::string &s) { Info info; run(deser(s), info); });
    bool audio = c.mode == "audio";
    pbt(audio ? "c07_sequencer_audio" : "c07_sequencer_tick", c.n, 40, [audio]() {
        Case cs; cs.song = *genSong(true);
        size_t nt = cs.song.tracks.size();
        cs.cfg.mult = *rc::gen::weightedOneOf<double>({{3, rc::gen::just(1.0)}, {3, rc::gen::element(0.25, 0.5, 1.5, 4.0)}, {1, rc::gen::map(rng<int>(10, 800), [](int v) { return v / 100.0; })}});
        cs.cfg.gran_sel = *rng<int>(0, 2); cs.cfg.step_policy = *rng<int>(0, 2); cs.cfg.step_sel = *rng<int>(0, 5); cs.cfg.rate_sel = *rng<int>(0, 2);
        int gate = *rng<int>(0, 7);
        if((gate == 1 || gate == 4 || gate == 5) && nt > 1) cs.cfg.solo = *rng<int>(0, (int)nt - 1);
        if((gate == 2 || gate == 4 || gate == 5) && nt > 1) cs.cfg.track_off_mask = (unsigned)*rng<int>(1, (1 << nt) - 1);   // gate 4/5: solo AND off together (also on the same track: off wins)
        if(gate == 5 && cs.cfg.solo >= 0) cs.cfg.track_off_mask |= 1u << cs.cfg.solo;
        if(gate == 3 || gate == 5) cs.cfg.chan_off_mask = (unsigned)*rng<int>(1, 65535);
        if((gate == 6 || gate == 3) && !audio) { cs.cfg.late_off_mask = (unsigned)*rc::gen::weightedOneOf<int>({{1, rc::gen::just(65535)}, {1, rng<int>(1, 65535)}}); cs.cfg.late_after = *rc::gen::weightedOneOf<int>({{3, rng<int>(0, 12)}, {1, rng<int>(0, 300)}}); }
        cs.cfg.audio = audio;
        if(audio) {
            cs.cfg.req = *rc::gen::container<std::vector<int>>(4, rc::gen::weightedOneOf<int>({{3, rc::gen::element(2, 3, 512, 1024, 1025, 2048, 4097, 70000)}, {2, rng<int>(2, 5000)}}));
            // audio mode renders the song: keep it short (<= ~20 s of real time) by clamping deltas and tempo extremes
            for(STrack &t : cs.song.tracks) for(SEv &e : t.ev) { if(e.delta > 200) e.delta = 1 + e.delta % 200; if(e.status == 0xFF && e.meta == 0x51) { uint32_t v = ((uint32_t)e.data[0] << 16) | ((uint32_t)e.data[1] << 8) | e.data[2]; if(v > 1000000) { v = 1000000; } if(v < 1000) v = 1000; e.data = {(uint8_t)(v >> 16), (uint8_t)(v >> 8), (uint8_t)v}; } }
            if(cs.song.division < 24) cs.song.division = 24;
            smf_ticks(cs.song);
        }
        std::string s = ser(cs);
        run_case(s, [&] {
            Info info; run(cs, info);
            Stats &st = ctx().stats;
            st.note_case(s, (info.multi_track || info.tempo_change_later) && info.two_classes_one_tick);
            if(info.multi_track) st.label("tracks>=2"); if(cs.song.shared) st.label("tracks_share_channels_and_keys"); if(info.tempo_change_later) st.label("tempo_change_after_tick0"); if(info.two_classes_one_tick) st.label("tick_with_>=2_event_classes");
            if(info.gating) st.label("track/channel_gating"); if(info.cut_midnote) st.label("channel_disabled_while_its_notes_sound"); st.label(info.audio ? "audio_driven" : "tick_driven"); st.addnum("events_delivered", (double)info.delivered);
        });
    });
    return finish();
}
