// C14: instances are deterministic and isolated, also across threads.
// Engines: rapidcheck (histories + single-thread interleavings, threaded rounds); metamorphic oracle: the observed
// instance's PCM and register stream must be bit-identical alone, repeated, interleaved with other instances and on
// concurrent threads; plus a cross-process heap-fill relation (mode heapfill) that exposes reads of uninitialised memory.
#include "common/inst.hpp"
#include "common/rc_util.hpp"
#include <sstream>
#include <thread>
#include <atomic>
#include <sys/wait.h>

using namespace vf;

enum IK { I_OPEN, I_CLOSE, I_NOTEON, I_NOTEOFF, I_CC, I_PATCH, I_BEND, I_GEN, I_EMU, I_CHIPS, I_RESET, I_BANK, I_LFOF, I_LFOE, I_PCMRATE, I_CHIPTYPE, I_SYSEX, I_PLAYSONG, I_PLAYMUS, I_NK };
static const char *const iname[I_NK] = {"open", "close", "noteon", "noteoff", "cc", "patch", "bend", "gen", "emu", "chips", "reset", "bank", "lfofreq", "lfoen", "pcmrate", "chiptype", "sysex", "playsong", "playmus"};
struct IOp { int kind = 0, a = 0, b = 0, c = 0; };
typedef std::vector<IOp> Hist;
struct Case { std::vector<Hist> h; std::vector<int> order; }; // order: whose next op runs (single-thread interleaving)
static const long kRates[] = {8000, 11025, 22050, 44100, 48000, 53267};

static std::string ser(const Case &c) {
    std::ostringstream o; o << "case " << c.h.size() << "\n";
    for(size_t i = 0; i < c.h.size(); i++) { o << "hist " << i << " " << c.h[i].size() << "\n"; for(const IOp &p : c.h[i]) o << iname[p.kind] << " " << p.a << " " << p.b << " " << p.c << "\n"; }
    o << "order " << c.order.size(); for(int x : c.order) o << " " << x; o << "\n";
    return o.str();
}
static Case deser(const std::string &s) {
    Case c; std::istringstream in(s); std::string w; size_t n = 0; in >> w >> n; c.h.resize(n);
    while(in >> w) {
        if(w == "hist") { size_t i, k; in >> i >> k; for(size_t j = 0; j < k; j++) { std::string nm; IOp p; in >> nm >> p.a >> p.b >> p.c; p.kind = 0; for(int q = 0; q < I_NK; q++) if(nm == iname[q]) p.kind = q; if(i < c.h.size()) c.h[i].push_back(p); } }
        else if(w == "order") { size_t k; in >> k; for(size_t j = 0; j < k; j++) { int x; in >> x; c.order.push_back(x); } }
    }
    return c;
}

static std::string lfo_bank_image(int variant) {
    WFile f; f.version = 2; f.lfo_freq = (uint8_t)(variant ? 0x0D : 0x0A); f.chip_type = (uint8_t)(variant & 1);
    WBank m, p; for(int i = 0; i < 128; i++) { WIns w = wins_audible((uint8_t)(i & 31), 1); w.lfosens = (uint8_t)((i & 1) ? 0x37 : 0x00); w.ops[0][3] |= 0x80; m.ins.push_back(w); WIns q = wins_audible((uint8_t)(i & 31), 2, 0, (uint8_t)(35 + i % 40)); q.lfosens = 0x23; p.ins.push_back(q); }
    f.mel.push_back(m); f.perc.push_back(p);
    return wopn_write(f);
}
static std::string song() {
    std::string trk; auto ev = [&](std::initializer_list<int> b) { for(int x : b) trk += (char)x; };
    ev({0x00, 0xC0, 0x01, 0x00, 0x90, 0x3C, 0x7F, 0x00, 0x99, 0x26, 0x70, 0x18, 0x80, 0x3C, 0x00, 0x00, 0x90, 0x43, 0x60, 0x18, 0x80, 0x43, 0x00, 0x00, 0xFF, 0x2F, 0x00});
    std::string f("MThd\0\0\0\6\0\0\0\1\0\x60", 14); f += "MTrk"; f += (char)0; f += (char)0; f += (char)(trk.size() >> 8); f += (char)(trk.size() & 255);
    return f + trk;
}

// one live instance executing a history op by op; records PCM and (through the calling thread's tap) register writes
struct Runner {
    Inst I; std::vector<short> pcm; double budget = 6e5; int emu = 0, chips = 1; bool observed = false;
    size_t pos = 0;
    void step(const IOp &p) {
        OPN2_MIDIPlayer *d = I.dev;
        if(p.kind == I_OPEN) {
            I.open(kRates[(size_t)p.a % 6]); d = I.dev; emu = p.b % 9; if(observed && emu == EMU_VGM) emu = EMU_NP2;
            opn2_switchEmulator(d, emu); chips = 1 + p.c % 2; opn2_setNumChips(d, chips);
            std::string b = lfo_bank_image(p.c & 1); opn2_openBankData(d, b.data(), (long)b.size());
            if(observed) { tap().only_synth = I.play()->m_synth.get(); tap().only_player = I.play(); }
            return;
        }
        if(!d) return;
        switch(p.kind) {
        case I_CLOSE: if(!observed) I.close(); break;
        case I_NOTEON: opn2_rt_noteOn(d, (OPN2_UInt8)p.a, (OPN2_UInt8)p.b, (OPN2_UInt8)p.c); break;
        case I_NOTEOFF: opn2_rt_noteOff(d, (OPN2_UInt8)p.a, (OPN2_UInt8)p.b); break;
        case I_CC: opn2_rt_controllerChange(d, (OPN2_UInt8)p.a, (OPN2_UInt8)p.b, (OPN2_UInt8)p.c); break;
        case I_PATCH: opn2_rt_patchChange(d, (OPN2_UInt8)p.a, (OPN2_UInt8)p.b); break;
        case I_BEND: opn2_rt_pitchBend(d, (OPN2_UInt8)p.a, (OPN2_UInt16)p.b); break;
        case I_GEN: {
            static const double w[] = {5, 60, 2, 5, 1, 5, 8, 0.2, 60};
            int n = p.a; double cost = (n / 2) * w[(size_t)emu % 9] * chips;
            if(cost > budget) n = (int)(budget / (w[(size_t)emu % 9] * chips)) * 2;
            if(n <= 0) break;
            budget -= (n / 2) * w[(size_t)emu % 9] * chips;
            size_t at = pcm.size(); pcm.resize(at + (size_t)n);
            int r = p.b ? opn2_play(d, n, pcm.data() + at) : opn2_generate(d, n, pcm.data() + at);
            pcm.resize(at + (size_t)(r > 0 ? r : 0));
            break;
        }
        case I_EMU: { int e = p.a % 9; if(observed && e == EMU_VGM) e = EMU_GENS; if(opn2_switchEmulator(d, e) == 0) emu = e; break; }
        case I_CHIPS: chips = 1 + p.a % 3; opn2_setNumChips(d, chips); break;
        case I_RESET: opn2_reset(d); break;
        case I_BANK: { std::string b = lfo_bank_image(p.a & 1); opn2_openBankData(d, b.data(), (long)b.size()); break; }
        case I_LFOF: opn2_setLfoFrequency(d, (p.a % 9) - 1); break;
        case I_LFOE: opn2_setLfoEnabled(d, (p.a % 3) - 1); break;
        case I_PCMRATE: opn2_setRunAtPcmRate(d, p.a & 1); break;
        case I_CHIPTYPE: opn2_setChipType(d, (p.a % 3) - 1); break;
        case I_SYSEX: { static const uint8_t gm[] = {0xF0, 0x7E, 0x7F, 0x09, 0x01, 0xF7}; static const uint8_t mv[] = {0xF0, 0x7F, 0x7F, 0x04, 0x01, 0x00, 0x50, 0xF7}; if(p.a & 1) opn2_rt_systemExclusive(d, gm, 6); else opn2_rt_systemExclusive(d, mv, 8); break; }
        case I_PLAYSONG: { std::string s = song(); opn2_openData(d, s.data(), (unsigned long)s.size()); break; }
        case I_PLAYMUS: { // a DMX MUS song of one note; its key-on carries a volume byte (a odd) or relies on the channel's default volume (a even)
            std::string sc; int key = 40 + p.c % 40; sc += (char)0x90; if(p.a & 1) { sc += (char)(key | 0x80); sc += (char)(p.b % 128); } else sc += (char)key; sc += (char)0x30;
            sc += (char)0x80; sc += (char)key; sc += (char)0x10; sc += (char)0x60;
            std::string h("MUS\x1a", 4); auto le16 = [&](unsigned v) { h += (char)(v & 255); h += (char)(v >> 8); }; le16((unsigned)sc.size()); le16(16); le16(1); le16(0); le16(0); le16(0);
            std::string f = h + sc; opn2_openData(d, f.data(), (unsigned long)f.size()); break; }
        }
    }
};

struct Out { std::vector<short> pcm; std::vector<TapRec> regs; };
static uint64_t regs_hash(const std::vector<TapRec> &v) { // field by field: the struct has padding
    uint64_t h = 1469598103934665603ULL;
    for(const TapRec &r : v) { uint64_t f[6] = {r.kind, r.port, r.chip, r.reg, r.val, r.frame}; h = fnv(f, sizeof f, h); }
    return h;
}
// runs one history alone on the calling thread
static Out run_solo(const Hist &h) {
    tap_install(); TapState &t = tap(); t.log.clear(); t.frames = 0; t.total = 0; t.only_synth = (void *)1; t.only_player = (void *)1;
    Out o; { Runner r; r.observed = true; for(const IOp &p : h) r.step(p); o.pcm = r.pcm; }
    o.regs = t.log; t.log.clear(); t.only_synth = nullptr; t.only_player = nullptr;
    return o;
}
static void expect_equal(const Out &a, const Out &b, const char *what) {
    VCHECK(a.pcm.size() == b.pcm.size(), "%s: rendered %zu samples vs %zu", what, a.pcm.size(), b.pcm.size());
    for(size_t i = 0; i < a.pcm.size(); i++) VCHECK(a.pcm[i] == b.pcm[i], "%s: audio differs from sample %zu on (%d vs %d)", what, i, a.pcm[i], b.pcm[i]);
    VCHECK(a.regs.size() == b.regs.size(), "%s: %zu register writes vs %zu", what, a.regs.size(), b.regs.size());
    for(size_t i = 0; i < a.regs.size(); i++) VCHECK(a.regs[i] == b.regs[i], "%s: register write %zu differs (chip %u reg 0x%02X val 0x%02X frame %llu vs chip %u reg 0x%02X val 0x%02X frame %llu)", what, i,
                                                   a.regs[i].chip, a.regs[i].reg, a.regs[i].val, (unsigned long long)a.regs[i].frame, b.regs[i].chip, b.regs[i].reg, b.regs[i].val, (unsigned long long)b.regs[i].frame);
}

struct Info { bool audio = false; int obs_emu = -1; std::vector<int> other_emus; bool interferer_between_audio = false; };

static void run_interleaved(const Case &c, Info &info) {
    VCHECK(!c.h.empty(), "empty case");
    Out p0 = run_solo(c.h[0]);
    Out p1 = run_solo(c.h[0]);
    expect_equal(p0, p1, "determinism (same history twice, alone)");
    // interleaved on one thread
    tap_install(); TapState &t = tap(); t.log.clear(); t.frames = 0; t.only_synth = (void *)1; t.only_player = (void *)1;
    Out pi;
    {
        std::vector<Runner> rs(c.h.size()); rs[0].observed = true;
        for(size_t i = 1; i < rs.size(); i++) rs[i].budget = 1.5e5;
        bool obs_audio_seen = false;
        auto step = [&](size_t who) { if(rs[who].pos < c.h[who].size()) { const IOp &p = c.h[who][rs[who].pos++]; if(who == 0 && p.kind == I_GEN) obs_audio_seen = true; if(who != 0 && obs_audio_seen && (p.kind == I_OPEN || p.kind == I_EMU || p.kind == I_RESET || p.kind == I_PCMRATE)) info.interferer_between_audio = true; rs[who].step(p); } };
        for(int who : c.order) step((size_t)who % rs.size());
        for(size_t who = 0; who < rs.size(); who++) while(rs[who].pos < c.h[who].size()) step(who);
        pi.pcm = rs[0].pcm;
    }
    pi.regs = t.log; t.log.clear(); t.only_synth = nullptr; t.only_player = nullptr;
    expect_equal(p0, pi, "isolation (other instances created/played/closed in between on the same thread)");
    for(short s : p0.pcm) if(s != 0) info.audio = true;
    for(const IOp &p : c.h[0]) if(p.kind == I_OPEN) { info.obs_emu = p.b % 9; break; }
    for(size_t i = 1; i < c.h.size(); i++) for(const IOp &p : c.h[i]) if(p.kind == I_OPEN || p.kind == I_EMU) info.other_emus.push_back((p.kind == I_OPEN ? p.b : p.a) % 9);
}

static void run_threaded(const Case &c, Info &info) {
    size_t k = c.h.size();
    std::vector<Out> solo(k), par(k);
    for(size_t i = 0; i < k; i++) solo[i] = run_solo(c.h[i]);
    std::atomic<int> ready(0); std::atomic<bool> go(false);
    std::vector<std::thread> th;
    for(size_t i = 0; i < k; i++) th.emplace_back([&, i]() { ready++; while(!go.load()) {} par[i] = run_solo(c.h[i]); });
    while(ready.load() < (int)k) {}
    go.store(true);
    for(auto &x : th) x.join();
    for(size_t i = 0; i < k; i++) expect_equal(solo[i], par[i], fmt("thread %zu of %zu (concurrent instances)", i, k).c_str());
    for(short s : solo[0].pcm) if(s != 0) info.audio = true;
}

// ---------------------------------------------------------------- generators
static rc::Gen<Hist> genHist(bool observed) {
    using namespace rc;
    auto op = gen::map(gen::tuple(gen::weightedElement<int>({{14, I_NOTEON}, {4, I_NOTEOFF}, {5, I_CC}, {3, I_PATCH}, {2, I_BEND}, {14, I_GEN}, {2, I_EMU}, {1, I_CHIPS}, {1, I_RESET}, {1, I_BANK}, {3, I_LFOF}, {2, I_LFOE}, {2, I_PCMRATE}, {1, I_CHIPTYPE}, {1, I_SYSEX}, {1, I_PLAYSONG}, {2, I_PLAYMUS}, {1, I_CLOSE}, {1, I_OPEN}}),
                                  rng<int>(0, 1000), rng<int>(0, 1000), rng<int>(0, 1000)), [observed](std::tuple<int, int, int, int> t) {
        int k = std::get<0>(t), a = std::get<1>(t), b = std::get<2>(t), c = std::get<3>(t); IOp p; p.kind = k;
        static const int chs[] = {0, 1, 9};
        switch(k) {
        case I_NOTEON: p.a = chs[a % 3]; p.b = 40 + b % 40; p.c = 40 + c % 88; break;
        case I_NOTEOFF: p.a = chs[a % 3]; p.b = 40 + b % 40; break;
        case I_CC: { static const int cc[] = {7, 11, 1, 10, 64, 74}; p.a = chs[a % 3]; p.b = cc[b % 6]; p.c = c % 128; break; }
        case I_PATCH: p.a = chs[a % 3]; p.b = b % 4; break;
        case I_BEND: p.a = chs[a % 3]; p.b = (b * 37) % 16384; break;
        case I_GEN: { static const int n[] = {64, 200, 512, 1024, 1026, 2048, 300}; p.a = n[a % 7]; p.b = (b % 4 == 0); break; }
        case I_OPEN: if(observed) p.kind = I_GEN, p.a = 256, p.b = 0; else { p.a = a; p.b = b; p.c = c; } break;
        case I_CLOSE: if(observed) p.kind = I_NOTEOFF, p.a = 0, p.b = 60; break;
        default: p.a = a; p.b = b; p.c = c; break;
        }
        return p;
    });
    return gen::map(gen::tuple(rng<int>(0, 1000), rng<int>(0, 8), rng<int>(0, 1000), gen::container<std::vector<IOp>>(op)), [](std::tuple<int, int, int, std::vector<IOp>> t) {
        Hist h; IOp o; o.kind = I_OPEN; o.a = std::get<0>(t); o.b = std::get<1>(t); o.c = std::get<2>(t); h.push_back(o);
        for(const IOp &p : std::get<3>(t)) h.push_back(p);
        return h;
    });
}
void showValue(const Case &c, std::ostream &os) { os << ser(c); }

static void account(const Case &c, const Info &info, bool threaded) {
    Stats &st = ctx().stats;
    st.note_case(ser(c), info.audio && (threaded || info.interferer_between_audio));
    if(!threaded) { for(int e : info.other_emus) st.label(std::string("pair:") + kEmuName[info.obs_emu < 0 ? 0 : info.obs_emu] + "<-" + kEmuName[e]); if(info.interferer_between_audio) st.label("interferer_created/reset/switched_between_audio_calls"); }
    else st.label("threaded_round_" + std::to_string(c.h.size()) + "_threads");
}

static std::string self_path() { char b[4096]; ssize_t n = readlink("/proc/self/exe", b, sizeof b - 1); if(n < 0) n = 0; b[n] = 0; return b; }
// cross-process metamorphic relation: the same history must render the same audio whatever the allocator fills fresh memory with
static void heapfill_relation(const Case &cs, bool &audio) {
    Ctx &c = ctx();
    std::string cf = c.replay_dir + "/hf." + c.tag + ".case", s = ser(cs);
    { FILE *f = fopen(cf.c_str(), "w"); VCHECK(f, "cannot write %s", cf.c_str()); fwrite(s.data(), 1, s.size(), f); fclose(f); }
    std::string outs[3]; static const char *fills[3] = {"0", "90", "255"};
    for(int k = 0; k < 3; k++) {
        std::string cmd = "ASAN_OPTIONS=malloc_fill_byte=" + std::string(fills[k]) + ":max_malloc_fill_size=268435456:detect_leaks=0 " + self_path() + " --mode render --replay-file " + cf + " 2>/dev/null";
        FILE *p = popen(cmd.c_str(), "r"); char buf[256] = {0}; if(p) { if(fgets(buf, sizeof buf, p)) outs[k] = buf; pclose(p); }
        while(!outs[k].empty() && outs[k].back() == '\n') outs[k].pop_back();
    }
    unlink(cf.c_str());
    audio = outs[0].find("audio=1") != std::string::npos;
    VCHECK(!outs[0].empty(), "render child produced no output");
    VCHECK(outs[0] == outs[1] && outs[1] == outs[2], "HEAPFILL: output depends on the content of freshly allocated memory: fill 0x00 -> %s | fill 0x5A -> %s | fill 0xFF -> %s", outs[0].c_str(), outs[1].c_str(), outs[2].c_str());
}

int main(int argc, char **argv) {
    parse_args(argc, argv);
    Ctx &c = ctx();
    if(!c.kv.count("budget")) c.cpu_budget_s = 180; else c.cpu_budget_s = c.opt("budget", 180);
    if(c.mode == "render") { // child of heapfill: prints one line with hashes
        Case cs = deser(read_file(c.opts("replay-file", "")));
        Out o = run_solo(cs.h[0]); bool audio = false; for(short s : o.pcm) if(s) audio = true;
        printf("pcm=%016llx regs=%016llx n=%zu audio=%d\n", (unsigned long long)fnv(o.pcm.data(), o.pcm.size() * 2), (unsigned long long)regs_hash(o.regs), o.pcm.size(), (int)audio);
        return 0;
    }
    if(c.mode == "replay") return replay_main([&](const std::string &s0) {
        std::string s = s0; bool hf = s.rfind("heapfill\n", 0) == 0; if(hf) s = s.substr(9);
        Case cs = deser(s); Info info;
        if(hf) { bool audio; heapfill_relation(cs, audio); return; }
        if(c.opts("threads", "0") != "0" || cs.order.empty()) { if(cs.h.size() > 1) run_threaded(cs, info); else { Out a = run_solo(cs.h[0]), b = run_solo(cs.h[0]); expect_equal(a, b, "determinism"); } }
        if(!cs.order.empty() || cs.h.size() > 1) run_interleaved(cs, info);
    });
    if(c.mode == "heapfill") {
        pbt("c14_heapfill", c.n, 40, []() {
            Case cs; cs.h.push_back(*genHist(true));
            std::string s = "heapfill\n" + ser(cs);
            run_case(s, [&] { bool audio = false; heapfill_relation(cs, audio); ctx().stats.note_case(s, audio); ctx().stats.label("heapfill_histories"); });
        });
        return finish();
    }
    if(c.mode == "threads") {
        pbt("c14_threads", c.n, 40, []() {
            Case cs; int k = *rng<int>(2, 8); for(int i = 0; i < k; i++) cs.h.push_back(*genHist(true));
            std::string s = ser(cs);
            run_case(s, [&] { Info info; run_threaded(cs, info); account(cs, info, true); });
        });
        return finish();
    }
    pbt("c14_interleaving", c.n, 40, []() {
        Case cs; int k = *rng<int>(2, 3);
        cs.h.push_back(*genHist(true)); for(int i = 1; i < k; i++) cs.h.push_back(*genHist(false));
        size_t total = 0; for(auto &h : cs.h) total += h.size();
        cs.order = *rc::gen::container<std::vector<int>>(total, rng<int>(0, k - 1));
        std::string s = ser(cs);
        run_case(s, [&] { Info info; run_interleaved(cs, info); account(cs, info, false); });
    });
    return finish();
}
