// C17: container/converter front-ends preserve the music (RMI, GMF, MUS, XMI).
// Engine: rapidcheck; oracles: differential twin (RMI/GMF vs bare SMF) and independent interpreters of the DMX MUS and
// AIL XMIDI formats over generated score models, compared with the raw-event-hook stream and delivery times.
#include "common/inst.hpp"
#include "common/smf.hpp"
#include "common/rc_util.hpp"
#include "common/smf_gen.hpp"
#include <cmath>
#include <map>
#include <set>

using namespace vf;

struct Ev { int type = 0, sub = 0, ch = 0; std::vector<uint8_t> data; double tell = 0; };
static std::string show(const Ev &e) { return fmt("type %02X sub %02X ch %d data %s @%.6f", e.type, e.sub, e.ch, hex(e.data.data(), e.data.size()).c_str(), e.tell); }
struct Rec { std::vector<Ev> got; OPN2_MIDIPlayer *dev = nullptr; };
static void raw_hook(void *ud, OPN2_UInt8 type, OPN2_UInt8 subtype, OPN2_UInt8 channel, const OPN2_UInt8 *data, size_t len) {
    Rec *r = (Rec *)ud; Ev e; e.type = type; e.sub = subtype; e.ch = channel; if(len) e.data.assign(data, data + len); e.tell = opn2_positionTell(r->dev); r->got.push_back(e);
}
static const double G = 1e-6;
// loads `img` (optionally selecting a song first) and plays it to the end, returning the delivered stream
static std::vector<Ev> play_image(const std::string &img, int select_before, int *songs_out, bool expect_ok, std::string *err, int select_after = -1000) {
    Inst I(8000); opn2_switchEmulator(I.dev, EMU_NP2); opn2_setNumChips(I.dev, 1); install_default_banks(I.dev, 200, 20);
    Rec rec; rec.dev = I.dev; opn2_setRawEventHook(I.dev, raw_hook, &rec); opn2_setLoopEnabled(I.dev, 0);
    if(select_before > -1000) opn2_selectSongNum(I.dev, select_before);
    int r = opn2_openData(I.dev, img.data(), (unsigned long)img.size());
    if(r != 0) { if(err) *err = opn2_errorInfo(I.dev); VCHECK(!expect_ok, "well-formed generated file rejected: %s", opn2_errorInfo(I.dev)); return rec.got; }
    if(songs_out) *songs_out = opn2_getSongsCount(I.dev);
    if(select_after > -1000) { opn2_selectSongNum(I.dev, select_after); rec.got.clear(); }
    double d = 0; size_t guard = 0;
    while(!opn2_atEnd(I.dev)) { double step = d > G ? d : G; d = opn2_tickEvents(I.dev, step, G); VCHECK(++guard < 3000000, "playback does not end"); }
    opn2_setRawEventHook(I.dev, NULL, NULL);
    std::vector<Ev> v; for(const Ev &e : rec.got) if(!(e.type == 0xFF && e.sub == 0x01 && e.data.empty())) v.push_back(e);
    return v;
}
static void expect_same_stream(const std::vector<Ev> &a, const std::vector<Ev> &b, const char *what) {
    VCHECK(a.size() == b.size(), "%s: %zu events delivered, the bare SMF delivers %zu", what, a.size(), b.size());
    for(size_t i = 0; i < a.size(); i++) {
        VCHECK(a[i].type == b[i].type && a[i].sub == b[i].sub && a[i].ch == b[i].ch && a[i].data == b[i].data, "%s: event #%zu is %s, the bare SMF delivers %s", what, i, show(a[i]).c_str(), show(b[i]).c_str());
        VCHECK(std::fabs(a[i].tell - b[i].tell) <= 1e-9 * (1 + b[i].tell), "%s: event #%zu is delivered at %.9f s, in the bare SMF at %.9f s", what, i, a[i].tell, b[i].tell);
    }
}

// ---------------------------------------------------------------- MUS model
struct MusEv { int ch = 0, kind = 0, a = 0, b = 0, has_vol = 0; unsigned delay = 0; }; // kind: 0 release,1 play,2 pitch,3 system,4 controller
struct MusScore { std::vector<MusEv> ev; };
static std::string mus_write(const MusScore &s) {
    std::string body; int maxch = -1;
    for(size_t i = 0; i < s.ev.size(); i++) {
        const MusEv &e = s.ev[i]; if(e.ch != 15 && e.ch > maxch) maxch = e.ch;
        body += (char)((e.delay ? 0x80 : 0) | (e.kind << 4) | e.ch);
        switch(e.kind) {
        case 0: body += (char)e.a; break;
        case 1: body += (char)(e.a | (e.has_vol ? 0x80 : 0)); if(e.has_vol) body += (char)e.b; break;
        case 2: body += (char)e.a; break;
        case 3: body += (char)e.a; break;
        case 4: body += (char)e.a; body += (char)e.b; break;
        }
        if(e.delay) { uint8_t tmp[5]; int n = 0; unsigned v = e.delay; tmp[n++] = v & 0x7F; v >>= 7; while(v) { tmp[n++] = (uint8_t)(0x80 | (v & 0x7F)); v >>= 7; } while(n) body += (char)tmp[--n]; }
    }
    body += (char)(6 << 4); // score end
    std::string h("MUS\x1a", 4); unsigned len = (unsigned)body.size(), start = 16, ch = (unsigned)(maxch + 1);
    auto le16 = [&](unsigned v) { h += (char)(v & 255); h += (char)(v >> 8); };
    le16(len); le16(start); le16(ch); le16(0); le16(0); le16(0);
    return h + body;
}
static std::string ser_mus(const MusScore &s) { std::ostringstream o; o << "mus " << s.ev.size() << "\n"; for(const MusEv &e : s.ev) o << e.ch << " " << e.kind << " " << e.a << " " << e.b << " " << e.has_vol << " " << e.delay << "\n"; return o.str(); }
struct XEv { unsigned units = 0; int status = 0, a = 0, b = 0; unsigned dur = 0; };
struct XSong { unsigned tempo = 500000; std::vector<XEv> ev; };
struct Case { int fmt = 0; SSong song; int odd_pad = 0; MusScore mus; std::vector<XSong> xmi; int xmi_sel = 0, xmi_sel_after = -1000; };

static std::string ser(const Case &c) {
    std::ostringstream o; o << "fmt " << c.fmt << " " << c.odd_pad << " " << c.xmi_sel << " " << c.xmi_sel_after << "\n";
    if(c.fmt <= 1) o << smf_ser(c.song);
    else if(c.fmt == 2) o << ser_mus(c.mus);
    else { o << "xmi " << c.xmi.size() << "\n"; for(const XSong &s : c.xmi) { o << "song " << s.tempo << " " << s.ev.size() << "\n"; for(const XEv &e : s.ev) o << e.units << " " << e.status << " " << e.a << " " << e.b << " " << e.dur << "\n"; } }
    return o.str();
}
static Case deser(const std::string &s) {
    Case c; std::istringstream in(s); std::string w; in >> w >> c.fmt >> c.odd_pad >> c.xmi_sel >> c.xmi_sel_after;
    if(c.fmt <= 1) c.song = smf_deser(in);
    else if(c.fmt == 2) { size_t n; in >> w >> n; for(size_t i = 0; i < n; i++) { MusEv e; in >> e.ch >> e.kind >> e.a >> e.b >> e.has_vol >> e.delay; c.mus.ev.push_back(e); } }
    else { size_t ns; in >> w >> ns; for(size_t k = 0; k < ns; k++) { XSong x; size_t n; in >> w >> x.tempo >> n; for(size_t i = 0; i < n; i++) { XEv e; in >> e.units >> e.status >> e.a >> e.b >> e.dur; x.ev.push_back(e); } c.xmi.push_back(x); } }
    return c;
}

struct Info { bool nontrivial = false; std::string label; size_t events = 0; };

static void run_mus(const MusScore &sc, Info &info) {
    std::string img = mus_write(sc);
    std::vector<Ev> got = play_image(img, -1000, NULL, true, NULL);
    // reference interpretation of the score
    static const int ctl_map[10] = {-1, 0, 1, 7, 10, 11, 91, 93, 64, 67};
    static const int sys_map[15] = {0, 0, 0, 0, 0, 0, 0, 0, 0, 0, 120, 123, 126, 127, 121};
    int chmap[16]; for(int &x : chmap) x = -1; chmap[15] = 9; int next = 0; int vol[16]; for(int &v : vol) v = -1;
    struct X { int type, ch; std::vector<uint8_t> data; uint64_t tick; bool any_value; bool lsb_free; };
    std::vector<X> exp; uint64_t tick = 0; std::set<int> used_ch; bool multibyte = false;
    for(const MusEv &e : sc.ev) {
        if(chmap[e.ch] < 0) { chmap[e.ch] = next++; if(next == 9) next++; }
        int mc = chmap[e.ch]; used_ch.insert(e.ch); X x; x.ch = mc; x.tick = tick; x.any_value = false; x.lsb_free = false;
        switch(e.kind) {
        case 0: x.type = 0x08; x.data = {(uint8_t)e.a, 0x40}; x.any_value = true; break;                       // release velocity is not defined by the format
        case 1: if(e.has_vol) vol[mc] = e.b; x.type = 0x09; x.data = {(uint8_t)e.a, (uint8_t)vol[mc]}; break;  // volume remembered per channel
        case 2: x.type = 0x0E; x.data = {(uint8_t)((e.a & 1) << 6), (uint8_t)(e.a >> 1)}; x.lsb_free = true; break;
        case 3: x.type = 0x0B; x.data = {(uint8_t)sys_map[e.a], 0}; x.any_value = (e.a == 12); break;
        default: if(e.a == 0) { x.type = 0x0C; x.data = {(uint8_t)e.b}; } else { x.type = 0x0B; x.data = {(uint8_t)ctl_map[e.a], (uint8_t)e.b}; } break;
        }
        exp.push_back(x);
        tick += e.delay; if(e.delay > 127) multibyte = true;
    }
    // delivered stream minus the converter's housekeeping (tempo meta, initial CC7=100 of each channel, End-of-Track)
    std::vector<Ev> d; std::set<int> vol_init_seen;
    for(const Ev &e : got) {
        if(e.type == 0xFF && (e.sub == 0x51 || e.sub == 0x2F)) continue;
        if(e.type == 0x0B && e.data.size() == 2 && e.data[0] == 7 && e.data[1] == 100 && !vol_init_seen.count(e.ch)) { vol_init_seen.insert(e.ch); continue; }
        d.push_back(e);
    }
    VCHECK(d.size() == exp.size(), "MUS score with %zu events: %zu events were delivered (after removing tempo/initial-volume/end housekeeping)", exp.size(), d.size());
    // one tick length for the whole score, taken from the last event
    uint64_t last_tick = exp.empty() ? 0 : exp.back().tick; double k = -1;
    if(last_tick > 0 && !d.empty()) { double tmax = 0; for(const Ev &e : d) tmax = std::max(tmax, e.tell); k = tmax / (double)last_tick; VCHECK(std::fabs(k * 140.0 - 1.0) <= 0.025, "MUS tick lasts %.6f ms: not within 2.5 %% of 1/140 s", k * 1000); }
    // events of one score tick may be reordered by class (C07); compare per tick as multisets, with the free parts masked
    auto canon = [](int type, int ch, const std::vector<uint8_t> &data, bool any_value, bool lsb_free) {
        std::vector<uint8_t> dd = data; if(any_value && dd.size() == 2) dd[1] = 0; if(lsb_free) dd[0] = 0; return fmt("%02X/%d/", type, ch) + hex(dd.data(), dd.size()); };
    std::map<uint64_t, std::multiset<std::string>> eg, dg;
    for(const X &x : exp) eg[x.tick].insert(canon(x.type, x.ch, x.data, x.any_value, x.lsb_free));
    for(const Ev &e : d) {
        uint64_t tk = 0; if(k > 0) { double u = e.tell / k; tk = (uint64_t)std::floor(u + 0.5); VCHECK(std::fabs(u - (double)tk) <= 0.01 + 1e-6 * u, "MUS: event %s is delivered %.4f ticks after the start: not proportional to the score ticks", show(e).c_str(), u); }
        // which masking applies is decided by the event kind
        bool any_value = (e.type == 0x08) || (e.type == 0x0B && e.data.size() == 2 && e.data[0] == 126); bool lsb_free = e.type == 0x0E;
        if(lsb_free) { bool okl = e.data[0] == 0 || e.data[0] == 0x40; VCHECK(okl, "MUS pitch wheel: LSB %02X is neither 0 nor a half step", e.data[0]); }
        dg[tk].insert(canon(e.type, e.ch, e.data, any_value, lsb_free));
    }
    for(auto &kv : eg) VCHECK(dg[kv.first] == kv.second, "MUS: at score tick %llu the delivered events differ from the score (%zu delivered, %zu defined; first defined %s, first delivered %s)", (unsigned long long)kv.first, dg[kv.first].size(), kv.second.size(), kv.second.begin()->c_str(), dg[kv.first].empty() ? "-" : dg[kv.first].begin()->c_str());
    for(auto &kv : dg) VCHECK(eg.count(kv.first), "MUS: events were delivered at score tick %llu where the score has none", (unsigned long long)kv.first);
    info.events = exp.size(); info.nontrivial = used_ch.size() >= 3 && used_ch.count(15) && multibyte; info.label = "mus";
}

static std::string xmi_write(const std::vector<XSong> &songs) {
    auto be32 = [](std::string &o, uint32_t v) { o += (char)(v >> 24); o += (char)(v >> 16); o += (char)(v >> 8); o += (char)v; };
    auto chunk = [&](const char *id, const std::string &body) { std::string o(id, 4); be32(o, (uint32_t)body.size()); o += body; if(body.size() & 1) o += (char)0; return o; };
    std::string cat = "XMID";
    for(const XSong &s : songs) {
        std::string ev; unsigned last = 0;
        ev += (char)0xFF; ev += (char)0x51; ev += (char)0x03; ev += (char)(s.tempo >> 16); ev += (char)(s.tempo >> 8); ev += (char)s.tempo;
        for(const XEv &e : s.ev) {
            unsigned gap = e.units - last; last = e.units;
            while(gap >= 0x7F) { ev += (char)0x7F; gap -= 0x7F; }
            if(gap) ev += (char)gap;
            ev += (char)e.status; ev += (char)e.a;
            int hi = e.status >> 4;
            if(hi != 0xC && hi != 0xD) ev += (char)e.b;
            if(hi == 0x9) { uint8_t tmp[5]; int n = 0; unsigned v = e.dur; tmp[n++] = v & 0x7F; v >>= 7; while(v) { tmp[n++] = (uint8_t)(0x80 | (v & 0x7F)); v >>= 7; } while(n) ev += (char)tmp[--n]; }
        }
        // the End-of-Track comes after the last pending note-off (a note may not outlast its sequence)
        unsigned endu = last; for(const XEv &e : s.ev) if((e.status >> 4) == 0x9 && e.units + e.dur + 1 > endu) endu = e.units + e.dur + 1;
        { unsigned gap = endu - last; while(gap >= 0x7F) { ev += (char)0x7F; gap -= 0x7F; } if(gap) ev += (char)gap; }
        ev += (char)0xFF; ev += (char)0x2F; ev += (char)0x00;
        std::string form = "XMID" + chunk("EVNT", ev);
        cat += chunk("FORM", form);
    }
    std::string info; info += (char)(songs.size() & 255); info += (char)(songs.size() >> 8);
    std::string xdir = "XDIR" + chunk("INFO", info);
    return chunk("FORM", xdir) + chunk("CAT ", cat);
}

static void check_xmi_song(const XSong &s, const std::vector<Ev> &got, const char *what) {
    struct X { int type, ch; std::vector<uint8_t> data; unsigned units; };
    std::vector<X> exp;
    for(const XEv &e : s.ev) {
        int hi = e.status >> 4; X x; x.ch = e.status & 15; x.units = e.units; x.type = hi;
        if(hi == 0xC || hi == 0xD) x.data = {(uint8_t)e.a}; else x.data = {(uint8_t)e.a, (uint8_t)e.b};
        exp.push_back(x);
        if(hi == 0x9) { X off; off.type = 0x08; off.ch = x.ch; off.units = e.units + e.dur; off.data = {(uint8_t)e.a, 0}; exp.push_back(off); } // the duration becomes a note-off
    }
    unsigned ppqn = (unsigned)(((uint64_t)s.tempo * 9) / 25000); double unit = 3.0 * (double)s.tempo / (double)ppqn / 1e6; // one XMIDI interval unit in seconds
    VCHECK(std::fabs(unit * 120.0 - 1.0) <= 1.0 / ppqn + 1e-9, "XMI: the interval unit lasts %.6f ms, not 1/120 s (tempo %u)", unit * 1000, s.tempo);
    std::vector<Ev> d; for(const Ev &e : got) { if(e.type == 0xFF && (e.sub == 0x51 || e.sub == 0x2F)) continue; d.push_back(e); }
    VCHECK(d.size() == exp.size(), "%s: %zu events delivered, the sequence defines %zu (note durations counted as note-offs)", what, d.size(), exp.size());
    // compare as multisets per interval unit
    std::map<unsigned, std::multiset<std::string>> eg, dg;
    for(const X &x : exp) eg[x.units].insert(fmt("%02X/%d/", x.type, x.ch) + hex(x.data.data(), x.data.size()));
    for(const Ev &e : d) { double u = e.tell / unit; unsigned ui = (unsigned)std::floor(u + 0.5); VCHECK(std::fabs(u - ui) <= 0.02 + 1e-6 * u, "%s: event %s is delivered %.4f interval units after the start - not on the 120 Hz grid", what, show(e).c_str(), u); dg[ui].insert(fmt("%02X/%d/", e.type, e.ch) + hex(e.data.data(), e.data.size())); }
    for(auto &kv : eg) VCHECK(dg[kv.first] == kv.second, "%s: at interval %u the delivered events differ from the sequence (%zu delivered, %zu defined); first defined: %s", what, kv.first, dg[kv.first].size(), kv.second.size(), kv.second.begin()->c_str());
    for(auto &kv : dg) VCHECK(eg.count(kv.first), "%s: events were delivered at interval %u where the sequence has none", what, kv.first);
}

static void run(const Case &c, Info &info) {
    opnmidi_verif_tap = NULL; opnmidi_verif_frames = NULL;
    if(c.fmt == 0) { // RMI
        std::string smf = smf_write(c.song);
        std::string data = smf; if(c.odd_pad && (data.size() & 1)) data += (char)0;
        std::string riff("RIFF", 4); uint32_t total = (uint32_t)(4 + 8 + data.size()); auto le32 = [](std::string &o, uint32_t v) { o += (char)v; o += (char)(v >> 8); o += (char)(v >> 16); o += (char)(v >> 24); };
        le32(riff, total); riff += "RMID"; riff += "data"; le32(riff, (uint32_t)smf.size()); riff += data;
        std::vector<Ev> a = play_image(riff, -1000, NULL, true, NULL), b = play_image(smf, -1000, NULL, true, NULL);
        expect_same_stream(a, b, "RIFF/RMID wrapping");
        info.events = a.size(); info.nontrivial = a.size() > 2; info.label = "rmi";
    } else if(c.fmt == 1) { // GMF: "GMF\1" + 3 bytes + one track (192 PPQN, 120 BPM)
        SSong s = c.song; s.format = 0; s.division = 192; s.tracks.resize(1);
        if(s.tracks[0].ev.size() < 3) { SEv n; n.status = 0x90; n.data = {60, 100}; n.delta = 1; s.tracks[0].ev.insert(s.tracks[0].ev.begin(), n); n.status = 0x80; n.data = {60, 0}; n.delta = 10; s.tracks[0].ev.insert(s.tracks[0].ev.begin() + 1, n); } // the loader needs a 14-byte header read
        smf_ticks(s);
        std::string smf = smf_write(s);
        std::string gmf("GMF\x01", 4); gmf += (char)0; gmf += (char)0; gmf += (char)0; gmf += smf.substr(14 + 8);
        std::vector<Ev> a = play_image(gmf, -1000, NULL, true, NULL), b = play_image(smf, -1000, NULL, true, NULL);
        expect_same_stream(a, b, "GMF wrapping");
        info.events = a.size(); info.nontrivial = a.size() > 2; info.label = "gmf";
    } else if(c.fmt == 2) run_mus(c.mus, info);
    else {
        std::string img = xmi_write(c.xmi); int songs = -1;
        int sel = c.xmi_sel; size_t ns = c.xmi.size();
        std::vector<Ev> got = play_image(img, sel, &songs, true, NULL, c.xmi_sel_after);
        VCHECK(songs == (int)ns, "getSongsCount reports %d, the file has %zu sequences", songs, ns);
        size_t played = (size_t)(c.xmi_sel_after > -1000 ? c.xmi_sel_after : sel);
        check_xmi_song(c.xmi[played], got, c.xmi_sel_after > -1000 ? "XMI sequence selected after load" : "XMI sequence selected before load");
        info.events = got.size(); info.nontrivial = ns >= 2 && played > 0; info.label = "xmi";
    }
}

// ---------------------------------------------------------------- generators
static rc::Gen<MusScore> genMus() {
    using namespace rc;
    auto ev = gen::tuple(rng<int>(0, 99), rng<int>(0, 1000), rng<int>(0, 1000), rng<int>(0, 1000));
    return gen::map(gen::container<std::vector<std::tuple<int, int, int, int>>>(ev), [](std::vector<std::tuple<int, int, int, int>> raw) {
        MusScore s; bool vol_given[16] = {false};
        for(auto &r : raw) {
            int k = std::get<0>(r), a = std::get<1>(r), b = std::get<2>(r), dl = std::get<3>(r); MusEv e;
            static const int chs[] = {0, 1, 2, 15, 3, 15, 7, 14, 9, 10, 0, 1};
            e.ch = (a % 5 < 3) ? (a / 5) % 16 : chs[a % 12]; // every MUS channel 0..15 is used; first-use order is whatever the score happens to be
            if(k < 40) { e.kind = 1; e.a = 30 + b % 70; e.has_vol = !vol_given[e.ch] || (b % 3 == 0); if(e.has_vol) { e.b = 1 + (b / 3) % 127; vol_given[e.ch] = true; } }
            else if(k < 60) { e.kind = 0; e.a = 30 + b % 70; }
            else if(k < 70) { e.kind = 2; e.a = b % 256; }
            else if(k < 78) { e.kind = 3; e.a = 10 + b % 5; }
            else { e.kind = 4; e.a = b % 10; e.b = (b / 10) % 128; if(e.a == 3 && e.b == 100) e.b = 99; }
            e.delay = (dl % 10 < 4) ? 0 : ((dl % 10 < 8) ? 1 + (unsigned)dl % 100 : 128 + (unsigned)dl * 7u % 3000u);
            s.ev.push_back(e);
        }
        return s;
    });
}
static rc::Gen<XSong> genXSong() {
    using namespace rc;
    auto ev = gen::tuple(rng<int>(0, 99), rng<int>(0, 1000), rng<int>(0, 1000), rng<int>(0, 400));
    return gen::map(gen::tuple(gen::weightedOneOf<unsigned>({{3, gen::map(rng<int>(12, 40), [](int v) { return (unsigned)v * 25000u; })}, {1, gen::map(rng<int>(277778, 2000000), [](int v) { return (unsigned)v; })}}),
                               gen::container<std::vector<std::tuple<int, int, int, int>>>(ev)), [](std::tuple<unsigned, std::vector<std::tuple<int, int, int, int>>> t) {
        XSong s; s.tempo = std::get<0>(t); unsigned now = 0;
        for(auto &r : std::get<1>(t)) {
            int k = std::get<0>(r), a = std::get<1>(r), b = std::get<2>(r), gap = std::get<3>(r); XEv e;
            now += (gap % 10 < 3) ? 0 : ((gap % 10 < 8) ? (unsigned)gap % 60 : 0x7F + (unsigned)gap); e.units = now;
            int ch = a % 16;
            if(k < 50) { e.status = 0x90 | ch; e.a = 30 + b % 70; e.b = 1 + (b / 7) % 127; e.dur = 1 + (unsigned)(a * 13) % 300; }
            else if(k < 70) { static const int cc[] = {1, 7, 10, 11, 64, 91}; e.status = 0xB0 | ch; e.a = cc[b % 6]; e.b = (b / 6) % 128; }
            else if(k < 80) { e.status = 0xC0 | ch; e.a = b % 128; }
            else if(k < 90) { e.status = 0xE0 | ch; e.a = b % 128; e.b = (b / 128) % 128; }
            else { e.status = 0xD0 | ch; e.a = b % 128; }
            s.ev.push_back(e);
        }
        return s;
    });
}
void showValue(const Case &c, std::ostream &os) { os << ser(c); }

int main(int argc, char **argv) {
    parse_args(argc, argv);
    Ctx &c = ctx();
    if(!c.kv.count("budget")) c.cpu_budget_s = 120; else c.cpu_budget_s = c.opt("budget", 120);
    if(c.mode == "replay") return replay_main([](const std::string &s) { Info info; run(deser(s), info); });
    pbt("c17_frontends", c.n, 35, []() {
        Case cs; cs.fmt = *rng<int>(0, 3);
        if(cs.fmt <= 1) { cs.song = *genSong(); cs.odd_pad = *rng<int>(0, 1); for(STrack &t : cs.song.tracks) for(SEv &e : t.ev) if(e.delta > 30000) e.delta = 1 + e.delta % 3000; smf_ticks(cs.song); }
        else if(cs.fmt == 2) cs.mus = *genMus();
        else { int ns = *rng<int>(1, 4); for(int i = 0; i < ns; i++) cs.xmi.push_back(*genXSong()); cs.xmi_sel = *rng<int>(0, ns - 1); if(*rng<int>(0, 2) == 0) cs.xmi_sel_after = *rng<int>(0, ns - 1); }
        std::string s = ser(cs);
        run_case(s, [&] { Info info; run(cs, info); ctx().stats.note_case(s, info.nontrivial); ctx().stats.label("format:" + info.label); ctx().stats.addnum("events_compared", (double)info.events); });
    });
    return finish();
}
