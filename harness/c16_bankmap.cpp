// C16: the bank API behaves as a map (percussive, MSB, LSB) -> 128 instruments.
// Engine: rapidcheck command sequences against a std::map model + bounded-exhaustive enumeration.
#include "common/inst.hpp"
#include "common/rc_util.hpp"
#include <map>
#include <array>
#include <set>
#include <sstream>

extern "C" int __sanitizer_install_malloc_and_free_hooks(void (*malloc_hook)(const volatile void *, size_t),
                                                          void (*free_hook)(const volatile void *));
static thread_local long g_mallocs = 0;
static void mhook(const volatile void *, size_t) { g_mallocs++; }
static void fhook(const volatile void *) {}

using namespace vf;

enum CmdKind { K_CREATE, K_CREATE_RT, K_LOOKUP, K_REMOVE, K_RESERVE, K_ITERATE, K_GETID, K_SETINS, K_GETINS, K_LOADFILE, K_INVALID, K_NKINDS };
static const char *kname[] = {"create", "creatert", "lookup", "remove", "reserve", "iterate", "getid", "setins", "getins", "loadfile", "invalid"};

struct Cmd {
    int kind = 0;
    int perc = 0, msb = 0, lsb = 0; // key
    int a = 0;                      // reserve n / instrument index / file bank count / invalid variant
    int b = 0;                      // instrument seed / file seed
};

static std::string ser(const std::vector<Cmd> &v) {
    std::ostringstream o;
    for(const Cmd &c : v) o << kname[c.kind] << " " << c.perc << " " << c.msb << " " << c.lsb << " " << c.a << " " << c.b << "\n";
    return o.str();
}
static std::vector<Cmd> deser(const std::string &s) {
    std::vector<Cmd> v; std::istringstream in(s); std::string k;
    while(in >> k) {
        Cmd c; c.kind = -1;
        for(int i = 0; i < K_NKINDS; i++) if(k == kname[i]) c.kind = i;
        in >> c.perc >> c.msb >> c.lsb >> c.a >> c.b;
        if(c.kind >= 0) v.push_back(c);
    }
    return v;
}

typedef std::array<OPN2_Instrument, 128> InsArr;
static uint32_t keyof(int perc, int msb, int lsb) { return (uint32_t)((perc << 16) | (msb << 8) | lsb); }

static OPN2_Instrument ins_from_seed(uint32_t s) {
    OPN2_Instrument in; memset(&in, 0, sizeof in);
    auto nx = [&]() { s = s * 1664525u + 1013904223u; return (s >> 8); };
    in.version = 0;
    in.note_offset = (OPN2_SInt16)(nx() & 0xFFFF);
    in.midi_velocity_offset = (OPN2_SInt8)(nx() & 0xFF);
    in.percussion_key_number = (OPN2_UInt8)nx();
    in.inst_flags = (OPN2_UInt8)(nx() & 3);
    in.fbalg = (OPN2_UInt8)nx(); in.lfosens = (OPN2_UInt8)nx();
    for(int o = 0; o < 4; o++) {
        in.operators[o].dtfm_30 = (OPN2_UInt8)nx(); in.operators[o].level_40 = (OPN2_UInt8)nx(); in.operators[o].rsatk_50 = (OPN2_UInt8)nx();
        in.operators[o].amdecay1_60 = (OPN2_UInt8)nx(); in.operators[o].decay2_70 = (OPN2_UInt8)nx(); in.operators[o].susrel_80 = (OPN2_UInt8)nx();
        in.operators[o].ssgeg_90 = (OPN2_UInt8)nx();
    }
    in.delay_on_ms = (OPN2_UInt16)nx(); in.delay_off_ms = (OPN2_UInt16)nx();
    return in;
}
static bool ins_eq(const OPN2_Instrument &a, const OPN2_Instrument &b) {
    if(a.version != b.version || a.note_offset != b.note_offset || a.midi_velocity_offset != b.midi_velocity_offset ||
       a.percussion_key_number != b.percussion_key_number || a.inst_flags != b.inst_flags || a.fbalg != b.fbalg || a.lfosens != b.lfosens ||
       a.delay_on_ms != b.delay_on_ms || a.delay_off_ms != b.delay_off_ms) return false;
    for(int o = 0; o < 4; o++) if(memcmp(&a.operators[o], &b.operators[o], sizeof(OPN2_Operator)) != 0) return false;
    return true;
}
static OPN2_Instrument model_blank() { OPN2_Instrument in; memset(&in, 0, sizeof in); in.inst_flags = OPNMIDI_Ins_IsBlank; return in; }

struct RunInfo { bool chain2 = false, reuse = false, rt_refused = false, rt_ok = false, loaded = false, grew = false; int removes = 0; };

// Executes the sequence against a live instance + model. `dev` may be shared (enum mode) if its bank map is fresh.
static void execute(OPN2_MIDIPlayer *dev, const std::vector<Cmd> &cmds, RunInfo &ri) {
    std::map<uint32_t, InsArr> model;
    std::map<uint32_t, OPN2_Bank> handle;
    std::set<uint32_t> ever_removed;
    InsArr blank; for(auto &x : blank) x = model_blank();

    auto check_full = [&](const char *when) {
        // iteration visits each model key exactly once
        std::set<uint32_t> seen; OPN2_Bank it;
        int r = opn2_getFirstBank(dev, &it);
        size_t guard = 0;
        while(r == 0) {
            OPN2_BankId id; VCHECK(opn2_getBankId(dev, &it, &id) == 0, "getBankId failed during iteration (%s)", when);
            uint32_t k = keyof(id.percussive, id.msb, id.lsb);
            VCHECK(seen.insert(k).second, "iteration visited bank %d:%d:%d twice (%s)", id.percussive, id.msb, id.lsb, when);
            VCHECK(model.count(k), "iteration visited bank %d:%d:%d which is not present in the model (%s)", id.percussive, id.msb, id.lsb, when);
            VCHECK(++guard <= 70000, "iteration does not terminate (%s)", when);
            r = opn2_getNextBank(dev, &it);
        }
        VCHECK(seen.size() == model.size(), "iteration visited %zu banks, model has %zu (%s)", seen.size(), model.size(), when);
    };
    // bucket statistics for the non-triviality rule
    auto bucket = [](uint32_t k) { return (k & 127) | (((k >> 8) & 1) << 7); };

    for(size_t ci = 0; ci < cmds.size(); ci++) {
        const Cmd &c = cmds[ci];
        uint32_t k = keyof(c.perc, c.msb, c.lsb);
        OPN2_BankId id; id.percussive = (OPN2_UInt8)c.perc; id.msb = (OPN2_UInt8)c.msb; id.lsb = (OPN2_UInt8)c.lsb;
        switch(c.kind) {
        case K_CREATE: case K_CREATE_RT: {
            bool rt = c.kind == K_CREATE_RT;
            int cap_before = opn2_reserveBanks(dev, 0);
            bool present = model.count(k) != 0;
            OPN2_Bank b; memset(&b, 0, sizeof b);
            g_mallocs = 0;
            int r = opn2_getBank(dev, &id, rt ? OPNMIDI_Bank_CreateRt : OPNMIDI_Bank_Create, &b);
            long m = g_mallocs;
            int cap_after = opn2_reserveBanks(dev, 0);
            if(rt) {
                VCHECK(m == 0, "real-time bank creation called the allocator %ld time(s)", m);
                VCHECK(cap_after == cap_before, "real-time bank creation changed capacity %d -> %d", cap_before, cap_after);
                bool expect_ok = present || (int)model.size() < cap_before;
                VCHECK((r == 0) == expect_ok, "CreateRt returned %d, expected %s (size %zu, capacity %d, present %d)", r, expect_ok ? "success" : "failure", model.size(), cap_before, (int)present);
                if(r != 0) { ri.rt_refused = true; break; }
                ri.rt_ok = true;
            } else {
                VCHECK(r == 0, "Create returned %d", r);
                if(cap_after > cap_before) ri.grew = true;
            }
            if(!present) { model[k] = blank; if(ever_removed.count(k) || !ever_removed.empty()) ri.reuse = true; }
            handle[k] = b;
            // identifiers read back equal those used at creation
            OPN2_BankId rid; VCHECK(opn2_getBankId(dev, &b, &rid) == 0, "getBankId failed");
            VCHECK(rid.percussive == id.percussive && rid.msb == id.msb && rid.lsb == id.lsb, "getBankId returned %d:%d:%d for bank created as %d:%d:%d",
                   rid.percussive, rid.msb, rid.lsb, id.percussive, id.msb, id.lsb);
            break;
        }
        case K_LOOKUP: {
            OPN2_Bank b; int r = opn2_getBank(dev, &id, 0, &b);
            bool present = model.count(k) != 0;
            VCHECK((r == 0) == present, "lookup of %d:%d:%d returned %d but model says present=%d", c.perc, c.msb, c.lsb, r, (int)present);
            if(r == 0) {
                handle[k] = b;
                OPN2_BankId rid; VCHECK(opn2_getBankId(dev, &b, &rid) == 0, "getBankId failed");
                VCHECK(rid.percussive == id.percussive && rid.msb == id.msb && rid.lsb == id.lsb, "lookup handle identifies as %d:%d:%d, wanted %d:%d:%d",
                       rid.percussive, rid.msb, rid.lsb, id.percussive, id.msb, id.lsb);
            }
            break;
        }
        case K_REMOVE: {
            if(!handle.count(k)) break; // only live handles are used
            OPN2_Bank b = handle[k];
            int r = opn2_removeBank(dev, &b);
            VCHECK(r == 0, "removeBank of a live bank returned %d", r);
            model.erase(k); handle.erase(k); ever_removed.insert(k); ri.removes++;
            OPN2_Bank t; VCHECK(opn2_getBank(dev, &id, 0, &t) != 0, "bank %d:%d:%d still found after removal", c.perc, c.msb, c.lsb);
            break;
        }
        case K_RESERVE: {
            int cap_before = opn2_reserveBanks(dev, 0);
            int r = opn2_reserveBanks(dev, (unsigned)c.a);
            VCHECK(r >= cap_before && r >= c.a, "reserveBanks(%d) returned %d (capacity before %d)", c.a, r, cap_before);
            break;
        }
        case K_ITERATE: check_full("iterate command"); break;
        case K_GETID: {
            if(!handle.count(k)) break;
            OPN2_BankId rid; OPN2_Bank b = handle[k];
            VCHECK(opn2_getBankId(dev, &b, &rid) == 0, "getBankId failed");
            VCHECK(rid.percussive == id.percussive && rid.msb == id.msb && rid.lsb == id.lsb, "getBankId mismatch");
            break;
        }
        case K_SETINS: {
            if(!handle.count(k)) break;
            OPN2_Bank b = handle[k];
            OPN2_Instrument in = ins_from_seed((uint32_t)c.b);
            unsigned idx = (unsigned)c.a;
            int r = opn2_setInstrument(dev, &b, idx, &in);
            if(idx > 127) { VCHECK(r == -1, "setInstrument index %u accepted", idx); break; }
            VCHECK(r == 0, "setInstrument returned %d", r);
            model[k][idx] = in;
            break;
        }
        case K_GETINS: {
            if(!handle.count(k)) break;
            OPN2_Bank b = handle[k];
            unsigned idx = (unsigned)c.a;
            OPN2_Instrument out; memset(&out, 0x5a, sizeof out);
            int r = opn2_getInstrument(dev, &b, idx, &out);
            if(idx > 127) { VCHECK(r == -1, "getInstrument index %u accepted", idx); break; }
            VCHECK(r == 0, "getInstrument returned %d", r);
            const OPN2_Instrument &exp = model[k][idx];
            if(exp.inst_flags & OPNMIDI_Ins_IsBlank && memcmp(&exp, &blank[0], sizeof exp) == 0)
                VCHECK(out.inst_flags & OPNMIDI_Ins_IsBlank, "fresh slot %u does not read back blank", idx);
            else
                VCHECK(ins_eq(out, exp), "instrument %u of %d:%d:%d reads back different from the last write", idx, c.perc, c.msb, c.lsb);
            break;
        }
        case K_LOADFILE: {
            // generated WOPN v2 with c.a banks whose ids derive from c.b; clears the map
            WFile f; uint32_t s = (uint32_t)c.b;
            auto nx = [&]() { s = s * 1664525u + 1013904223u; return (s >> 8); };
            int nb = 1 + (c.a % 5);
            std::map<uint32_t, InsArr> nm;
            for(int i = 0; i < nb; i++) {
                WBank b; int perc = nx() & 1;
                // ids from the colliding pool or uniform in 0..127
                b.lsb = (uint8_t)((nx() & 1) ? (nx() & 127) : (c.lsb & 127));
                b.msb = (uint8_t)((nx() & 1) ? (nx() & 127) : ((c.msb & 127) ^ ((nx() & 1) << 1)));
                InsArr arr;
                for(int j = 0; j < 128; j++) {
                    OPN2_Instrument in = ins_from_seed(nx());
                    WIns w; w.note_offset = in.note_offset; w.perc_key = in.percussion_key_number; w.fbalg = in.fbalg; w.lfosens = in.lfosens;
                    for(int o = 0; o < 4; o++) { w.ops[o][0] = in.operators[o].dtfm_30; w.ops[o][1] = in.operators[o].level_40; w.ops[o][2] = in.operators[o].rsatk_50;
                        w.ops[o][3] = in.operators[o].amdecay1_60; w.ops[o][4] = in.operators[o].decay2_70; w.ops[o][5] = in.operators[o].susrel_80; w.ops[o][6] = in.operators[o].ssgeg_90; }
                    if((nx() & 3) == 0) { in.delay_on_ms = 0; in.delay_off_ms = 0; }
                    w.delay_on = in.delay_on_ms; w.delay_off = in.delay_off_ms;
                    in.midi_velocity_offset = 0;
                    in.inst_flags = (in.delay_on_ms == 0 && in.delay_off_ms == 0) ? OPNMIDI_Ins_IsBlank : 0;
                    b.ins.push_back(w); arr[j] = in;
                }
                (perc ? f.perc : f.mel).push_back(b);
                nm[keyof(perc, b.msb, b.lsb)] = arr; // file order: melodic first then percussive; later duplicates overwrite
            }
            // respect the loader's order for duplicate ids: all melodic banks first, then percussion; within a group file order
            nm.clear();
            for(int sct = 0; sct < 2; sct++) for(const WBank &b : (sct ? f.perc : f.mel)) {
                InsArr arr;
                for(int j = 0; j < 128; j++) {
                    OPN2_Instrument in; memset(&in, 0, sizeof in);
                    const WIns &w = b.ins[j];
                    in.note_offset = w.note_offset; in.percussion_key_number = w.perc_key; in.fbalg = w.fbalg; in.lfosens = w.lfosens;
                    for(int o = 0; o < 4; o++) { in.operators[o].dtfm_30 = w.ops[o][0]; in.operators[o].level_40 = w.ops[o][1]; in.operators[o].rsatk_50 = w.ops[o][2];
                        in.operators[o].amdecay1_60 = w.ops[o][3]; in.operators[o].decay2_70 = w.ops[o][4]; in.operators[o].susrel_80 = w.ops[o][5]; in.operators[o].ssgeg_90 = w.ops[o][6]; }
                    in.delay_on_ms = w.delay_on; in.delay_off_ms = w.delay_off;
                    in.inst_flags = (w.delay_on == 0 && w.delay_off == 0) ? OPNMIDI_Ins_IsBlank : 0;
                    arr[j] = in;
                }
                nm[keyof(sct, b.msb, b.lsb)] = arr;
            }
            // a file with zero banks of one kind loads as one blank bank 0:0 of that kind (WOPN_Init's documented minimum)
            if(f.mel.empty()) nm[keyof(0, 0, 0)] = blank;
            if(f.perc.empty()) nm[keyof(1, 0, 0)] = blank;
            std::string img = wopn_write(f);
            int r = opn2_openBankData(dev, img.data(), (long)img.size());
            VCHECK(r == 0, "generated bank file rejected: %s", opn2_errorInfo(dev));
            model = nm; handle.clear(); ri.loaded = true;
            break;
        }
        case K_INVALID: {
            OPN2_BankId bad = id; OPN2_Bank b;
            switch(c.a % 3) { case 0: bad.msb = (OPN2_UInt8)(128 + (c.b & 127)); break; case 1: bad.lsb = (OPN2_UInt8)(128 + (c.b & 127)); break; default: bad.percussive = (OPN2_UInt8)(2 + (c.b & 127)); }
            size_t before = model.size();
            int r = opn2_getBank(dev, &bad, (c.b & 1) ? OPNMIDI_Bank_Create : 0, &b);
            VCHECK(r == -1, "invalid bank id %d:%d:%d accepted", bad.percussive, bad.msb, bad.lsb);
            VCHECK(model.size() == before, "unreachable");
            break;
        }
        }
        // cheap invariant after every step: every model key is found, and a sample of absent twins is not
        for(auto &kv : model) {
            OPN2_BankId q; q.percussive = (OPN2_UInt8)(kv.first >> 16); q.msb = (OPN2_UInt8)((kv.first >> 8) & 0xFF); q.lsb = (OPN2_UInt8)(kv.first & 0xFF);
            OPN2_Bank t; VCHECK(opn2_getBank(dev, &q, 0, &t) == 0, "present bank %d:%d:%d not found after step %zu (%s)", q.percussive, q.msb, q.lsb, ci, kname[c.kind]);
        }
        {
            OPN2_BankId q = id; q.percussive ^= 1;
            uint32_t tk = keyof(q.percussive, q.msb, q.lsb); OPN2_Bank t;
            VCHECK((opn2_getBank(dev, &q, 0, &t) == 0) == (model.count(tk) != 0), "twin bank lookup disagrees with model after step %zu", ci);
        }
        // non-triviality bookkeeping
        std::map<uint32_t, int> per_bucket;
        for(auto &kv : model) if(++per_bucket[bucket(kv.first)] >= 2) ri.chain2 = true;
    }
    check_full("end of sequence");
    // final read-back of every slot of every present bank
    for(auto &kv : model) {
        OPN2_BankId q; q.percussive = (OPN2_UInt8)(kv.first >> 16); q.msb = (OPN2_UInt8)((kv.first >> 8) & 0xFF); q.lsb = (OPN2_UInt8)(kv.first & 0xFF);
        OPN2_Bank t; VCHECK(opn2_getBank(dev, &q, 0, &t) == 0, "present bank lost at the end");
        for(unsigned i = 0; i < 128; i++) {
            OPN2_Instrument out; VCHECK(opn2_getInstrument(dev, &t, i, &out) == 0, "getInstrument failed");
            const OPN2_Instrument &exp = kv.second[i];
            if(memcmp(&exp, &blank[0], sizeof exp) == 0) VCHECK(out.inst_flags & OPNMIDI_Ins_IsBlank, "untouched slot %u of %d:%d:%d is not blank", i, q.percussive, q.msb, q.lsb);
            else VCHECK(ins_eq(out, exp), "final read-back: slot %u of %d:%d:%d differs from last write", i, q.percussive, q.msb, q.lsb);
        }
    }
}

static void run_fresh(const std::vector<Cmd> &cmds, RunInfo &ri) {
    Inst I(8000);
    VCHECK(I.dev, "opn2_init failed");
    opn2_switchEmulator(I.dev, EMU_NP2);
    opn2_setNumChips(I.dev, 1);
    execute(I.dev, cmds, ri);
}

static void account(const std::vector<Cmd> &cmds, const RunInfo &ri, const std::string &s) {
    Stats &st = ctx().stats;
    bool nt = (ri.chain2 && ri.reuse) || ri.rt_refused;
    st.note_case(s, nt);
    if(ri.chain2) st.label("collision_chain>=2");
    if(ri.reuse) st.label("slot_reuse_after_remove");
    if(ri.rt_refused) st.label("creatert_refused");
    if(ri.rt_ok) st.label("creatert_ok");
    if(ri.loaded) st.label("bank_file_loaded");
    if(ri.grew) st.label("grew_past_capacity");
    for(const Cmd &c : cmds) st.label(std::string("cmd:") + kname[c.kind]);
}

// ---------------------------------------------------------------- generators
static rc::Gen<Cmd> genCmd() {
    using namespace rc;
    // pool of keys colliding in the 256-bucket hash: same lsb, same msb parity, melodic/percussive twins
    auto keyGen = gen::oneOf(
        gen::map(gen::tuple(rng<int>(0, 1), gen::element(0, 2, 4, 126, 1, 3), gen::element(0, 0, 0, 5, 127)), [](std::tuple<int, int, int> t) { return t; }),
        gen::map(gen::tuple(rng<int>(0, 1), gen::element(0, 2, 4, 126, 1, 3), gen::element(0, 0, 0, 5, 127)), [](std::tuple<int, int, int> t) { return t; }),
        gen::tuple(rng<int>(0, 1), rng<int>(0, 127), rng<int>(0, 127)));
    auto kindGen = gen::weightedElement<int>({{10, K_CREATE}, {8, K_CREATE_RT}, {6, K_LOOKUP}, {8, K_REMOVE}, {3, K_RESERVE}, {2, K_ITERATE},
                                              {2, K_GETID}, {5, K_SETINS}, {5, K_GETINS}, {1, K_LOADFILE}, {1, K_INVALID}});
    return gen::map(gen::tuple(kindGen, keyGen, rng<int>(0, 40), rng<int>(0, 1 << 20), gen::element(0, 1, 127, 128, 5, 64)),
                    [](std::tuple<int, std::tuple<int, int, int>, int, int, int> t) {
                        Cmd c; c.kind = std::get<0>(t);
                        c.perc = std::get<0>(std::get<1>(t)); c.msb = std::get<1>(std::get<1>(t)); c.lsb = std::get<2>(std::get<1>(t));
                        c.a = std::get<2>(t); c.b = std::get<3>(t);
                        if(c.kind == K_SETINS || c.kind == K_GETINS) { int e = std::get<4>(t); c.a = (c.a % 4 == 0) ? e : (c.a * 3 + c.b) % 128; }
                        return c;
                    });
}

namespace rc {
template <> struct Arbitrary<Cmd> { static Gen<Cmd> arbitrary() { return genCmd(); } };
}
void showValue(const Cmd &c, std::ostream &os) { os << kname[c.kind] << "(" << c.perc << ":" << c.msb << ":" << c.lsb << "," << c.a << "," << c.b << ")"; }

// ---------------------------------------------------------------- enumeration
static void run_enum(long depth, long shard, long shards) {
    // alphabet: {Create,CreateRt,Remove,Lookup} x 6 keys that fit in 2 buckets, Reserve(0/1/5), Iterate
    std::vector<Cmd> alpha;
    int keys[6][3] = {{0, 0, 0}, {0, 2, 0}, {1, 0, 0}, {1, 2, 0}, {0, 1, 0}, {1, 1, 0}};
    int kinds[4] = {K_CREATE, K_CREATE_RT, K_REMOVE, K_LOOKUP};
    for(int kk = 0; kk < 4; kk++) for(int k = 0; k < 6; k++) { Cmd c; c.kind = kinds[kk]; c.perc = keys[k][0]; c.msb = keys[k][1]; c.lsb = keys[k][2]; alpha.push_back(c); }
    for(int n : {0, 1, 5}) { Cmd c; c.kind = K_RESERVE; c.a = n; alpha.push_back(c); }
    { Cmd c; c.kind = K_ITERATE; alpha.push_back(c); }
    Stats &st = ctx().stats;
    st.notes.push_back("enum alphabet: {create,creatert,remove,lookup} x keys {0:0:0,0:2:0,1:0:0,1:2:0,0:1:0,1:1:0} + reserve(0/1/5) + iterate; all sequences of length 1.." + std::to_string(depth));
    Inst I(8000);
    opn2_switchEmulator(I.dev, EMU_NP2); opn2_setNumChips(I.dev, 1);
    size_t A = alpha.size();
    uint64_t idx = 0, done = 0;
    for(long L = 1; L <= depth; L++) {
        uint64_t total = 1; for(long i = 0; i < L; i++) total *= A;
        std::vector<Cmd> seq((size_t)L);
        for(uint64_t n = 0; n < total; n++, idx++) {
            if((long)(idx % (uint64_t)shards) != shard) continue;
            uint64_t m = n;
            for(long i = 0; i < L; i++) { seq[(size_t)i] = alpha[m % A]; m /= A; }
            // fresh, empty map with zero capacity for this sequence (all operations still go through the public API)
            I.synth().m_insBanks = OPN2::BankMap();
            RunInfo ri;
            std::string s;
            bool want_repr = (done % 50000) == 0;
            if(want_repr) s = ser(seq);
            try { execute(I.dev, seq, ri); }
            catch(const Fail &f) {
                s = ser(seq); ctx().failures++; save_failing_case(s, f.msg);
                ctx().stats.write(ctx().stats_path);
                return;
            }
            bool nt = (ri.chain2 && ri.removes > 0) || ri.rt_refused;
            st.evaluations++; if(nt) { st.nontrivial_total++; st.distinct_by_construction++; if(want_repr && st.samples.size() < 3) st.samples.push_back(s); }
            if(ri.rt_refused) st.label("enum:creatert_refused");
            if(ri.chain2) st.label("enum:collision_chain>=2");
            done++;
        }
    }
    st.exhaustive = true;
    st.num("enum_depth", (double)depth);
    st.num("enum_sequences", (double)done);
}

int main(int argc, char **argv) {
    parse_args(argc, argv);
    __sanitizer_install_malloc_and_free_hooks(mhook, fhook);
    Ctx &c = ctx();
    if(c.mode == "replay")
        return replay_main([](const std::string &s) { RunInfo ri; run_fresh(deser(s), ri); });
    if(c.mode == "enum") { run_enum(c.depth ? c.depth : 3, c.shard, c.shards); return finish(); }
    pbt("c16_bank_map_model", c.n, 60, [](const std::vector<Cmd> &cmds) {
        std::string s = ser(cmds);
        run_case(s, [&] { RunInfo ri; run_fresh(cmds, ri); account(cmds, ri, s); });
    });
    return finish();
}
