// rapidcheck glue: programmatic parameters (seed / case count / size from the command line),
// shrunk-case capture, inclusive range generator that does not collapse at small sizes.
#pragma once
#include <rapidcheck.h>
#include "verif.hpp"

namespace vf {

template <class T>
inline rc::Gen<T> rng(T lo, T hi) { // inclusive on both ends
    return rc::gen::resize(100, rc::gen::map(rc::gen::inRange<long long>((long long)lo, (long long)hi + 1),
                                             [](long long v) { return (T)v; }));
}

// values from a boundary list with probability ~1/2, otherwise uniform in [lo,hi]
template <class T>
inline rc::Gen<T> biased(std::vector<T> specials, T lo, T hi) {
    return rc::gen::oneOf(rc::gen::elementOf(specials), rng<T>(lo, hi));
}

inline uint64_t splitmix(uint64_t x) {
    x += 0x9E3779B97F4A7C15ULL;
    x = (x ^ (x >> 30)) * 0xBF58476D1CE4E5B9ULL;
    x = (x ^ (x >> 27)) * 0x94D049BB133111EBULL;
    return x ^ (x >> 31);
}

// Runs one rapidcheck property. seed is derived from --seed and the worker tag + property name.
template <class P>
inline bool pbt(const std::string &name, long cases, int max_size, P prop) {
    Ctx &c = ctx();
    rc::detail::TestParams params;
    uint64_t seed = (uint64_t)c.opt("seed", 1);
    if(seed == 0) seed = 1;
    params.seed = splitmix(seed * 1000003ULL + fnv(c.tag) % 1000003ULL) ^ fnv(name);
    params.maxSuccess = (int)cases;
    params.maxSize = max_size;
    params.maxDiscardRatio = 20;
    rc::detail::TestMetadata md;
    md.id = name; md.description = name;
    c.last_failing_case.clear(); c.first_fail_cpu = -1;
    const auto result = rc::detail::checkTestable(prop, md, params);
    bool ok = result.template is<rc::detail::SuccessResult>();
    if(!ok) {
        std::cerr << "- " << name << std::endl;
        rc::detail::printResultMessage(result, std::cerr);
        std::cerr << std::endl;
        if(result.template is<rc::detail::FailureResult>()) {
            c.failures++;
            if(!c.last_failing_case.empty())
                save_failing_case(c.last_failing_case, c.last_failing_msg);
            else
                printf("FAILCASE - :: rapidcheck failure without captured case in %s\n", name.c_str());
        } else {
            // gave up (too many discards) or error: not a violation, but the stage is inconclusive
            printf("INCONCLUSIVE %s\n", name.c_str());
            c.stats.notes.push_back("inconclusive: " + name);
        }
    }
    c.stats.write(c.stats_path);
    return ok;
}

} // namespace vf
