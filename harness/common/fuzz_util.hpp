// libFuzzer glue: stats at exit, --replay handling inside the fuzz binary, failure reporting that traps
// (so libFuzzer saves the artifact) after the counters have been flushed.
#pragma once
#include "verif.hpp"

extern "C" int LLVMFuzzerTestOneInput(const uint8_t *data, size_t size);

namespace vf {

inline bool &fuzz_replaying() { static bool b = false; return b; }

inline void fuzz_flush() { ctx().stats.write(ctx().stats_path); }

[[noreturn]] inline void fuzz_fail(const std::string &msg) {
    if(fuzz_replaying()) {
        printf("REPLAY-FAIL %s\n", msg.c_str());
        fflush(stdout);
        _exit(10);
    }
    fprintf(stderr, "\nFUZZ-FAIL: %s\n", msg.c_str());
    fuzz_flush();
    __builtin_trap();
}

inline int fuzz_init(int *argc, char ***argv) {
    Ctx &c = ctx();
    const char *sp = getenv("VERIF_STATS");
    if(sp) c.stats_path = sp;
    const char *tg = getenv("VERIF_TAG");
    if(tg) c.tag = tg;
    for(int i = 1; i < *argc; i++) {
        if(std::string((*argv)[i]) == "--replay" && i + 1 < *argc) {
            std::string data = read_file((*argv)[i + 1]);
            fuzz_replaying() = true;
            arm_watchdog(300);
            LLVMFuzzerTestOneInput((const uint8_t *)data.data(), data.size());
            printf("REPLAY-OK\n");
            fflush(stdout);
            _exit(0);
        }
    }
    atexit(fuzz_flush);
    return 0;
}

// minimal data provider (integrals from the end, bytes from the front), independent of compiler-rt's header
struct Bytes {
    const uint8_t *p; size_t n;
    Bytes(const uint8_t *d, size_t s) : p(d), n(s) {}
    uint32_t u(uint32_t lo, uint32_t hi) { // inclusive
        uint64_t range = (uint64_t)hi - lo + 1, v = 0; size_t k = 0;
        while(k < 4 && n > 0 && (range >> (8 * k)) > 0) { v = (v << 8) | p[--n]; k++; }
        return lo + (uint32_t)(v % range);
    }
    uint8_t byte() { return n ? p[--n] : 0; }
    bool empty() const { return n == 0; }
    std::string take(size_t k) { if(k > n) k = n; std::string s((const char *)p, k); p += k; n -= k; return s; }
    std::string rest() { return take(n); }
};

} // namespace vf
