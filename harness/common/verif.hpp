// Shared harness plumbing: failure type, stats/evidence, case files, CPU watchdog, command line.
// No dependency on the library under test.
#pragma once
#include <ctime>
#if defined(__has_feature)
#if __has_feature(address_sanitizer)
#include <sanitizer/common_interface_defs.h>
#endif
#endif
#include <cstdint>
#include <cstdio>
#include <cstdlib>
#include <cstring>
#include <cstdarg>
#include <string>
#include <vector>
#include <map>
#include <unordered_set>
#include <exception>
#include <algorithm>
#include <signal.h>
#include <sys/time.h>
#include <unistd.h>
#include <fcntl.h>

namespace vf {

struct Fail : public std::exception {
    std::string msg;
    explicit Fail(const std::string &m) : msg(m) {}
    const char *what() const noexcept override { return msg.c_str(); }
};

inline std::string fmt(const char *f = "", ...) {
    char buf[4096];
    va_list ap; va_start(ap, f);
    vsnprintf(buf, sizeof buf, f, ap);
    va_end(ap);
    return buf;
}

[[noreturn]] inline void fail_at(const char *file, int line, const char *cond, const std::string &m) {
    const char *b = strrchr(file, '/');
    throw Fail(fmt("%s:%d: (%s) %s", b ? b + 1 : file, line, cond, m.c_str()));
}
#define VCHECK(cond, ...) do { if(!(cond)) ::vf::fail_at(__FILE__, __LINE__, #cond, ::vf::fmt(__VA_ARGS__)); } while(0)

inline uint64_t fnv(const void *p, size_t n, uint64_t h = 1469598103934665603ULL) {
    const unsigned char *c = (const unsigned char *)p;
    for(size_t i = 0; i < n; i++) { h ^= c[i]; h *= 1099511628211ULL; }
    return h;
}
inline uint64_t fnv(const std::string &s, uint64_t h = 1469598103934665603ULL) { return fnv(s.data(), s.size(), h); }

inline std::string jesc(const std::string &s) {
    std::string o;
    for(unsigned char c : s) {
        if(c == '"') o += "\\\"";
        else if(c == '\\') o += "\\\\";
        else if(c == '\n') o += "\\n";
        else if(c == '\t') o += "\\t";
        else if(c < 0x20 || c >= 0x7f) { char b[8]; snprintf(b, sizeof b, "\\u%04x", c); o += b; }
        else o += (char)c;
    }
    return o;
}

inline std::string hex(const void *p, size_t n) {
    static const char *d = "0123456789abcdef";
    std::string o; o.reserve(n * 2);
    const unsigned char *c = (const unsigned char *)p;
    for(size_t i = 0; i < n; i++) { o += d[c[i] >> 4]; o += d[c[i] & 15]; }
    return o;
}
inline std::vector<uint8_t> unhex(const std::string &s) {
    std::vector<uint8_t> o;
    auto v = [](char c) { return c >= 'a' ? c - 'a' + 10 : c >= 'A' ? c - 'A' + 10 : c - '0'; };
    for(size_t i = 0; i + 1 < s.size(); i += 2) o.push_back((uint8_t)(v(s[i]) * 16 + v(s[i + 1])));
    return o;
}

// ---------------------------------------------------------------- stats
struct Stats {
    uint64_t evaluations = 0;
    uint64_t nontrivial_total = 0;           // non-trivial cases incl. duplicates
    uint64_t distinct_by_construction = 0;   // for enumerations whose points are distinct by construction
    bool exhaustive = false;
    std::unordered_set<uint64_t> nt_hashes;  // distinct non-trivial cases (hash of canonical serialisation)
    std::map<std::string, uint64_t> labels;
    std::map<std::string, double> numbers;
    std::vector<std::string> samples;        // first non-trivial ones
    std::string largest_sample;
    std::vector<std::string> notes;
    size_t max_samples = 3;
    size_t sample_clip = 1500;

    void label(const std::string &l, uint64_t n = 1) { labels[l] += n; }
    void num(const std::string &k, double v) { numbers[k] = v; }
    void addnum(const std::string &k, double v) { numbers[k] += v; }
    // every executed case goes through here exactly once
    void note_case(const std::string &repr, bool nontrivial) {
        evaluations++;
        if(!nontrivial) return;
        nontrivial_total++;
        bool fresh = nt_hashes.insert(fnv(repr)).second;
        if(!fresh) return;
        std::string r = repr.size() > sample_clip ? repr.substr(0, sample_clip) + "...[clipped]" : repr;
        if(samples.size() < max_samples) samples.push_back(r);
        else if(repr.size() > largest_sample.size()) largest_sample = r;
    }
    void note_case_hash(uint64_t h, bool nontrivial, const std::string &sample_if_wanted = "") {
        evaluations++;
        if(!nontrivial) return;
        nontrivial_total++;
        bool fresh = nt_hashes.insert(h).second;
        if(fresh && samples.size() < max_samples && !sample_if_wanted.empty()) samples.push_back(sample_if_wanted);
    }
    void write(const std::string &path) const {
        if(path.empty()) return;
        std::string tmp = path + ".tmp";
        FILE *f = fopen(tmp.c_str(), "w");
        if(!f) return;
        fprintf(f, "{\n \"evaluations\": %llu,\n \"nontrivial_total\": %llu,\n \"distinct_by_construction\": %llu,\n \"exhaustive\": %s,\n",
                (unsigned long long)evaluations, (unsigned long long)nontrivial_total,
                (unsigned long long)distinct_by_construction, exhaustive ? "true" : "false");
        fprintf(f, " \"labels\": {");
        bool first = true;
        for(auto &kv : labels) { fprintf(f, "%s\"%s\": %llu", first ? "" : ", ", jesc(kv.first).c_str(), (unsigned long long)kv.second); first = false; }
        fprintf(f, "},\n \"numbers\": {");
        first = true;
        for(auto &kv : numbers) { fprintf(f, "%s\"%s\": %.9g", first ? "" : ", ", jesc(kv.first).c_str(), kv.second); first = false; }
        fprintf(f, "},\n \"samples\": [");
        first = true;
        for(auto &s : samples) { fprintf(f, "%s\"%s\"", first ? "" : ", ", jesc(s).c_str()); first = false; }
        if(!largest_sample.empty()) fprintf(f, "%s\"%s\"", first ? "" : ", ", jesc(largest_sample).c_str());
        fprintf(f, "],\n \"notes\": [");
        first = true;
        for(auto &s : notes) { fprintf(f, "%s\"%s\"", first ? "" : ", ", jesc(s).c_str()); first = false; }
        fprintf(f, "],\n \"n_hashes\": %llu\n}\n", (unsigned long long)nt_hashes.size());
        fclose(f);
        rename(tmp.c_str(), path.c_str());
        std::string hp = path + ".hashes";
        f = fopen(hp.c_str(), "wb");
        if(f) {
            std::vector<uint64_t> v(nt_hashes.begin(), nt_hashes.end());
            if(!v.empty()) fwrite(v.data(), 8, v.size(), f);
            fclose(f);
        }
    }
};

// ---------------------------------------------------------------- context / command line
struct Ctx {
    double first_fail_cpu = -1; // CPU time of the first failing case of the running property (shrink budget), reset by pbt()
    std::string mode = "pbt";
    std::string stats_path;
    std::string replay_dir = ".";   // where failing cases are written
    std::string replay_file;        // input for --replay
    std::string tag = "w0";
    long n = 100;                   // generic case-count knob
    long depth = 0;                 // generic depth knob (enum)
    long shard = 0, shards = 1;
    long cpu_budget_s = 20;         // per-case CPU-time watchdog
    std::map<std::string, std::string> kv;
    Stats stats;
    std::string current_case_path;
    int current_fd = -1;
    std::string last_failing_case;
    std::string last_failing_msg;
    int failures = 0;

    long opt(const std::string &k, long d) const { auto i = kv.find(k); return i == kv.end() ? d : atol(i->second.c_str()); }
    std::string opts(const std::string &k, const std::string &d) const { auto i = kv.find(k); return i == kv.end() ? d : i->second; }
};

inline Ctx &ctx() { static Ctx c; return c; }

inline void parse_args(int argc, char **argv) {
    Ctx &c = ctx();
    for(int i = 1; i < argc; i++) {
        std::string a = argv[i];
        auto next = [&]() -> std::string { return i + 1 < argc ? argv[++i] : ""; };
        if(a == "--mode") c.mode = next();
        else if(a == "--stats") c.stats_path = next();
        else if(a == "--replay-dir") c.replay_dir = next();
        else if(a == "--replay") { c.mode = "replay"; c.replay_file = next(); }
        else if(a == "--tag") c.tag = next();
        else if(a == "--n") c.n = atol(next().c_str());
        else if(a == "--depth") c.depth = atol(next().c_str());
        else if(a == "--shard") c.shard = atol(next().c_str());
        else if(a == "--shards") c.shards = atol(next().c_str());
        else if(a == "--cpu") c.cpu_budget_s = atol(next().c_str());
        else if(a.rfind("--", 0) == 0) { std::string k = a.substr(2); c.kv[k] = next(); }
    }
    c.current_case_path = c.replay_dir + "/current." + c.tag + ".case";
}

// ---------------------------------------------------------------- watchdog (CPU time, not wall clock)
inline void on_vtalrm(int) {
    const char m[] = "\nWATCHDOG: per-case CPU budget exceeded (possible unbounded loop)\n";
    ssize_t r = write(2, m, sizeof m - 1); (void)r;
#if defined(__has_feature)
#if __has_feature(address_sanitizer)
    if(getenv("VERIF_WATCHDOG_STACK")) __sanitizer_print_stack_trace(); // triage aid: where the CPU time went
#endif
#endif
    _exit(14);
}
inline void arm_watchdog(long seconds) {
    static bool installed = false;
    if(!installed) { signal(SIGVTALRM, on_vtalrm); installed = true; }
    struct itimerval it; memset(&it, 0, sizeof it);
    it.it_value.tv_sec = seconds;
    setitimer(ITIMER_VIRTUAL, &it, NULL);
}

// Record the case about to run, so that a sanitizer abort leaves its reproduction behind.
inline void begin_case(const std::string &serialised) {
    Ctx &c = ctx();
    if(c.mode != "replay") {
        if(c.current_fd < 0) c.current_fd = open(c.current_case_path.c_str(), O_CREAT | O_WRONLY | O_TRUNC, 0644);
        if(c.current_fd >= 0) {
            if(ftruncate(c.current_fd, 0) == 0) { ssize_t r = pwrite(c.current_fd, serialised.data(), serialised.size(), 0); (void)r; }
        }
    }
    arm_watchdog(c.cpu_budget_s);
}
inline void end_case_ok() {
    // nothing: file is overwritten by the next case; removed at clean exit
}
inline void clean_exit_files() {
    Ctx &c = ctx();
    if(c.current_fd >= 0) { close(c.current_fd); c.current_fd = -1; unlink(c.current_case_path.c_str()); }
}

inline std::string save_failing_case(const std::string &serialised, const std::string &msg) {
    Ctx &c = ctx();
    char name[64]; snprintf(name, sizeof name, "fail-%016llx.case", (unsigned long long)fnv(serialised));
    std::string p = c.replay_dir + "/" + name;
    FILE *f = fopen(p.c_str(), "w");
    if(f) { fwrite(serialised.data(), 1, serialised.size(), f); fclose(f); }
    std::string first = msg.substr(0, msg.find('\n'));
    printf("FAILCASE %s :: %s\n", p.c_str(), first.c_str());
    fflush(stdout);
    return p;
}

inline std::string read_file(const std::string &p) {
    std::string s; FILE *f = fopen(p.c_str(), "rb");
    if(!f) return s;
    char buf[65536]; size_t n;
    while((n = fread(buf, 1, sizeof buf, f)) > 0) s.append(buf, n);
    fclose(f);
    return s;
}

// Run one case through `body` with full bookkeeping; used by both pbt (inside the rapidcheck lambda) and replay.
// In pbt mode a failure is re-thrown so that rapidcheck shrinks; the last failing serialisation is remembered.
template <class F>
inline void run_case(const std::string &serialised, F body) {
    Ctx &c = ctx();
    // Shrinking budget: once a failure has been seen, shrink candidates are tried for at most `shrink_cpu_s` of CPU time; after
    // that every further candidate is answered "passes" without being run, which ends the shrink at the smallest failing case
    // found so far (that case, not rapidcheck's printout, is what gets saved and re-confirmed 3x by the driver).
    double &first_fail_cpu = c.first_fail_cpu; const double shrink_cpu_s = 90;
    if(first_fail_cpu >= 0 && (double)clock() / CLOCKS_PER_SEC - first_fail_cpu > shrink_cpu_s) return;
    struct Mark { double *p; bool armed; ~Mark() { if(armed && *p < 0) *p = (double)clock() / CLOCKS_PER_SEC; } } mark{&first_fail_cpu, true};
    begin_case(serialised);
    try {
        body();
    } catch(const Fail &f) {
        c.last_failing_case = serialised;
        c.last_failing_msg = f.msg;
        if(const char *tf = getenv("VERIF_TRACE_FAIL")) { fprintf(stderr, "TRACE-FAIL %s\n", f.msg.substr(0, 300).c_str()); fflush(stderr); if(tf[0] == '/') { FILE *fo = fopen(tf, "wb"); if(fo) { fwrite(serialised.data(), 1, serialised.size(), fo); fclose(fo); } } } // triage aid: every failing candidate, incl. shrink steps
        throw;
    }
    mark.armed = false;
    end_case_ok();
}

// Standard replay wrapper: returns process exit code
template <class F>
inline int replay_main(F run_serialised) {
    Ctx &c = ctx();
    // a comma-separated list replays several cases in ONE process, in order (exposes state leaking between cases)
    std::vector<std::string> files; { std::string cur; for(char ch : c.replay_file) { if(ch == ',') { files.push_back(cur); cur.clear(); } else cur += ch; } files.push_back(cur); }
    int rc = 0;
    for(const std::string &fpath : files) {
        std::string s = read_file(fpath);
        if(s.empty()) { fprintf(stderr, "replay: cannot read %s\n", fpath.c_str()); return 2; }
        arm_watchdog(c.cpu_budget_s * 3);
        try {
            run_serialised(s);
        } catch(const Fail &f) {
            printf("REPLAY-FAIL %s\n", f.msg.c_str());
            fflush(stdout);
            rc = 10;
            continue;
        }
        if(files.size() > 1) printf("replay %s: ok\n", fpath.c_str());
    }
    if(rc == 0) printf("REPLAY-OK\n");
    return rc;
}

inline int finish() {
    Ctx &c = ctx();
    c.stats.write(c.stats_path);
    clean_exit_files();
    fflush(stdout);
    return c.failures ? 10 : 0;
}

} // namespace vf
