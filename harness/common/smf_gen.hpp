// rapidcheck generator of well-formed SMF structures (shared by C07, C08, C09, C17, C01).
// Track k uses MIDI channels {2k, 2k+1}; SysEx / text metas carry (track, serial) stamps; tempo and other fixed-format metas only in track 0.
#pragma once
#include "smf.hpp"
#include "rc_util.hpp"

namespace vf {
inline rc::Gen<SSong> genSong(bool allow_shared = false, bool allow_ports = false) {
    using namespace rc;
    return gen::mapcat(gen::tuple(gen::weightedElement<int>({{1, 0}, {3, 1}}), rng<int>(1, 8), gen::weightedOneOf<int>({{4, gen::element(1, 24, 96, 192, 480, 960, 32767)}, {1, rng<int>(1, 32767)}})), [allow_shared, allow_ports](std::tuple<int, int, int> h) {
        int format = std::get<0>(h), nt = format == 0 ? 1 : std::get<1>(h); unsigned division = (unsigned)std::get<2>(h);
        auto evGen = gen::tuple(gen::weightedElement<int>({{40, 0}, {30, 1}, {15, 2}, {10, 3}, {4, 4}, {1, 5}}), rng<int>(0, 100000), rng<int>(0, 22), rng<int>(0, 1000), rng<int>(0, 1000), rng<int>(0, 1));
        auto trackGen = gen::container<std::vector<std::tuple<int, int, int, int, int, int>>>(evGen);
        return gen::map(gen::tuple(gen::container<std::vector<std::vector<std::tuple<int, int, int, int, int, int>>>>((size_t)nt, trackGen), rng<int>(0, 3), rng<int>(0, 3)), [format, division, allow_shared, allow_ports](std::tuple<std::vector<std::vector<std::tuple<int, int, int, int, int, int>>>, int, int> tt) {
            SSong s; s.format = format; s.division = division;
            const auto &raw = std::get<0>(tt); int eot_mode = std::get<1>(tt);
            // shared mode (C07): every track plays on channels 0/1 with the same tiny key set; the last data byte carries 16*track + r so that events can be attributed
            bool shared = allow_shared && raw.size() >= 2 && std::get<2>(tt) == 0; s.shared = shared ? 1 : 0;
            for(size_t k = 0; k < raw.size(); k++) {
                STrack t; int serial = 0; size_t nt2 = raw.size();
                for(const auto &r : raw[k]) {
                    SEv e; int dsel = std::get<0>(r), dv = std::get<1>(r), kind = std::get<2>(r), a = std::get<3>(r), b = std::get<4>(r);
                    switch(dsel) { case 0: e.delta = 0; break; case 1: e.delta = 1 + (uint32_t)dv % 127; break; case 2: e.delta = 1 + (uint32_t)dv % 40; break; case 3: e.delta = 128 + (uint32_t)dv % 20000; break; case 4: e.delta = (uint32_t)dv % 3; break; default: e.delta = 16384 + (uint32_t)dv * 19u % 2000000u; break; }
                    int ch = (int)((2 * k + (size_t)(a & 1)) % 16); if(nt2 == 1) ch = a % 16;
                    int key = ((a / 7) % 10 < 7) ? 36 + (a / 2) % 3 : 36 + (a / 2) % 24; // mostly a tiny key set: same-key retriggers and zero-length notes at one tick are common
                    if((a / 7) % 10 == 9 && (a / 70) % 3 == 0) { static const int edge[] = {0, 1, 126, 127}; key = edge[(a / 2) % 4]; } // now and then the ends of the key range
                    e.running = std::get<5>(r) != 0; serial++;
                    if(shared) { ch = a & 1; key = 36 + (a / 2) % 3; if(kind == 8) kind = 5; }
                    std::vector<uint8_t> stamp = {(uint8_t)k, (uint8_t)((serial >> 7) & 0x7F), (uint8_t)(serial & 0x7F)};
                    switch(kind) {
                    case 0: case 1: case 2: case 3: case 4: e.status = (uint8_t)(0x90 | ch); e.data = {(uint8_t)key, (uint8_t)(1 + b % 127)}; break;
                    case 5: case 6: case 7: e.status = (uint8_t)(0x80 | ch); e.data = {(uint8_t)key, (uint8_t)(b % 128)}; break;
                    case 8: e.status = (uint8_t)(0x90 | ch); e.data = {(uint8_t)key, 0}; break;
                    case 9: { static const int cc[] = {7, 10, 11, 1, 64, 74, 0, 32, 91, 6, 100, 101, 66, 67, 65, 5, 38, 98, 99, 121, 37, 7, 11, 10}; e.status = (uint8_t)(0xB0 | ch); e.data = {(uint8_t)cc[b % 24], (uint8_t)((b / 24) % 128)}; break; }
                    case 10: e.status = (uint8_t)(0xC0 | ch); e.data = {(uint8_t)(b % 128)}; break;
                    case 11: e.status = (uint8_t)(0xE0 | ch); e.data = {(uint8_t)(b % 128), (uint8_t)((b / 128) % 128)}; break;
                    case 12: e.status = (uint8_t)(0xD0 | ch); e.data = {(uint8_t)(b % 128)}; break;
                    case 13: e.status = (uint8_t)(0xA0 | ch); e.data = {(uint8_t)key, (uint8_t)(b % 128)}; break;
                    case 14: e.status = 0xF0; e.data = stamp; e.data.insert(e.data.begin(), 0x7D); e.data.push_back(0xF7); e.data[1] = (uint8_t)k; break; // F0 7D <track> <serial> F7 (non-commercial id: ignored by the synth)
                    case 15: e.status = 0xF7; e.data = {0x7D, (uint8_t)k, (uint8_t)(serial & 0x7F)}; break;
                    case 16: case 17: { static const int mt[] = {0x01, 0x02, 0x03, 0x04, 0x05, 0x06, 0x07, 0x7F}; e.status = 0xFF; e.meta = (uint8_t)mt[b % 8]; e.data = stamp; if(e.meta == 0x06) { e.data.push_back('m'); e.data.push_back('k'); }
                        // ports mode (C08): some text metas become device-name metas (FF 09) with one of three names - a new name gives the track 16 more MIDI channels
                        if(allow_ports && kind == 17 && (b / 8) % 2 == 0) { e.meta = 0x09; static const char *const nm[] = {"A", "B", "C"}; const char *x = nm[(b / 16) % 3]; e.data.assign(x, x + 1); }
                        break; }
                    case 18: if(k == 0) { static const uint32_t tv[] = {500000, 250000, 1000000, 333333, 600000, 1, 0xFFFFFF, 120000}; uint32_t v = (b % 5 == 0) ? (uint32_t)(1 + (b * 7919u) % 0xFFFFFFu) : tv[b % 8]; e.status = 0xFF; e.meta = 0x51; e.data = {(uint8_t)(v >> 16), (uint8_t)(v >> 8), (uint8_t)v}; }
                             else { e.status = (uint8_t)(0xB0 | ch); e.data = {7, (uint8_t)(b % 128)}; } break;
                    case 19: if(k == 0) { e.status = 0xFF; e.meta = 0x58; e.data = {(uint8_t)(1 + b % 12), (uint8_t)(b % 4), 24, 8}; } else { e.status = (uint8_t)(0xC0 | ch); e.data = {(uint8_t)(b % 128)}; } break;
                    case 20: if(k == 0) { e.status = 0xFF; e.meta = 0x59; e.data = {(uint8_t)(b % 8), (uint8_t)(b & 1)}; } else { e.status = (uint8_t)(0x90 | ch); e.data = {(uint8_t)key, 64}; } break;
                    case 21: if(k == 0) { e.status = 0xFF; e.meta = (b & 1) ? 0x54 : 0x20; e.data = (b & 1) ? std::vector<uint8_t>{1, 2, 3, 4, 5} : std::vector<uint8_t>{(uint8_t)(b % 16)}; } else { e.status = (uint8_t)(0x80 | ch); e.data = {(uint8_t)key, 0}; } break;
                    default: e.status = (uint8_t)(0x90 | ch); e.data = {(uint8_t)key, 100}; break;
                    }
                    if(shared && e.status >= 0x80 && e.status < 0xF0 && !e.data.empty()) {
                        uint8_t &last = e.data.back(); bool is_cc = (e.status & 0xF0) == 0xB0;
                        if(is_cc) e.data[0] = (b & 1) ? 7 : 11; // volume/expression only: their value is free to carry the tag
                        last = (uint8_t)(16 * (k % 8) + 1 + (last % 15));
                    }
                    t.ev.push_back(e);
                }
                SEv eot; eot.status = 0xFF; eot.meta = 0x2F; eot.delta = (eot_mode == 0) ? 0 : (uint32_t)(1 + 37 * (k + 1) * (uint32_t)eot_mode);
                t.ev.push_back(eot);
                s.tracks.push_back(t);
            }
            smf_ticks(s);
            return s;
        });
    });
}

} // namespace vf
