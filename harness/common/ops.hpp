// Operation interpreter for real-time API histories (shared by C04, C05, C06, ...):
// Op struct + text serialisation (the replay format) + apply() + snapshot of private voice bookkeeping.
#pragma once
#include "inst.hpp"
#include <sstream>
#include <cmath>

namespace vf {

enum OpKind {
    O_NOTEON, O_NOTEOFF, O_CC, O_PATCH, O_BEND, O_PANIC, O_RESETSTATE, O_ADVANCE, O_ATNOTE, O_ATCH,
    O_ARP, O_CHIPS, O_EMU, O_RELOADBANK, O_RESET, O_ALLOCMODE, O_SYSEX, O_SETBLANK, O_PLAYFILE, O_CHIPTYPE, O_ADDBANK, O_REMOVEBANK, O_NKINDS
};
static const char *const kOpName[O_NKINDS] = {"noteon", "noteoff", "cc", "patch", "bend", "panic", "resetstate", "advance", "atnote", "atch",
                                              "arp", "chips", "emu", "reloadbank", "reset", "allocmode", "sysex", "setblank", "playfile", "chiptype", "addbank", "removebank"};
struct Op {
    int kind = 0, a = 0, b = 0, c = 0;
    bool operator==(const Op &o) const { return kind == o.kind && a == o.a && b == o.b && c == o.c; }
};
inline std::string ser_ops(const std::vector<Op> &v) {
    std::ostringstream o;
    for(const Op &p : v) o << kOpName[p.kind] << " " << p.a << " " << p.b << " " << p.c << "\n";
    return o.str();
}
inline std::vector<Op> deser_ops(std::istream &in) {
    std::vector<Op> v; std::string k;
    while(in >> k) {
        if(k == "end") break;
        Op p; p.kind = -1;
        for(int i = 0; i < O_NKINDS; i++) if(k == kOpName[i]) p.kind = i;
        in >> p.a >> p.b >> p.c;
        if(p.kind >= 0) v.push_back(p);
    }
    return v;
}

// canned SysEx messages (index = Op.a for O_SYSEX)
inline std::vector<uint8_t> canned_sysex(int i) {
    static const std::vector<std::vector<uint8_t>> m = {
        {0xF0, 0x7E, 0x7F, 0x09, 0x01, 0xF7},                                     // GM on
        {0xF0, 0x7E, 0x7F, 0x09, 0x02, 0xF7},                                     // GM off
        {0xF0, 0x41, 0x10, 0x42, 0x12, 0x40, 0x00, 0x7F, 0x00, 0x41, 0xF7},       // GS reset
        {0xF0, 0x43, 0x10, 0x4C, 0x00, 0x00, 0x7E, 0x00, 0xF7},                   // XG on
        {0xF0, 0x7F, 0x7F, 0x04, 0x01, 0x00, 0x40, 0xF7},                         // master volume 64
        {0xF0, 0x7F, 0x7F, 0x04, 0x01, 0x7F, 0x7F, 0xF7},                         // master volume 127
    };
    return m[(size_t)i % m.size()];
}

// a tiny valid format-0 SMF: a few notes on channel `ch`, used by O_PLAYFILE
inline std::string tiny_smf(int ch, int key, int n) {
    std::string trk;
    for(int i = 0; i < n; i++) {
        trk += (char)0x00; trk += (char)(0x90 | (ch & 15)); trk += (char)((key + i) & 127); trk += (char)100;
        trk += (char)0x30; trk += (char)(0x80 | (ch & 15)); trk += (char)((key + i) & 127); trk += (char)0;
    }
    trk += (char)0x00; trk += (char)0xFF; trk += (char)0x2F; trk += (char)0x00;
    std::string f("MThd\0\0\0\6\0\0\0\1\0\x60", 14);
    f += "MTrk"; f += (char)0; f += (char)0; f += (char)(trk.size() >> 8); f += (char)(trk.size() & 255);
    return f + trk;
}

struct World {
    Inst I;
    long rate = 8000;
    int emulator = EMU_NP2;
    KeyState keys;
    size_t tap_pos = 0;
    std::string bank_image; // used by O_RELOADBANK
    // results of the last apply()
    int last_ret = 0;

    void start(long r, int emu, int chips) {
        rate = r; emulator = emu;
        tap_install();
        tap().log.clear(); tap().frames = 0; tap().only_synth = nullptr; tap().only_player = nullptr; tap_pos = 0;
        I.open(rate);
        opn2_switchEmulator(I.dev, emu);
        opn2_setNumChips(I.dev, chips);
        install_default_banks(I.dev);
        keys.resize(I.nchan());
        drain_tap();
    }
    void drain_tap() {
        TapState &t = tap();
        for(; tap_pos < t.log.size(); tap_pos++) keys.feed(t.log[tap_pos]);
        if(t.log.size() > (1u << 20)) { t.log.clear(); tap_pos = 0; }
        size_t n = I.nchan();
        if(keys.on.size() != n) keys.on.resize(n, 0);
    }
    // advances >= this many ms are made with opn2_tickEvents() in 50 ms steps (public API for clocking the synth without audio)
    long tick_advance_threshold_ms = 0;
    void advance_ms(double ms) {
        if(tick_advance_threshold_ms > 0 && ms >= tick_advance_threshold_ms) {
            double left = ms / 1000.0;
            while(left > 1e-9) { double st = left > 0.05 ? 0.05 : left; opn2_tickEvents(I.dev, st, 0.001); left -= st; }
        } else
            I.advance_ms(ms, rate);
    }

    void apply(const Op &p) {
        OPN2_MIDIPlayer *d = I.dev;
        last_ret = 0;
        switch(p.kind) {
        case O_NOTEON: last_ret = opn2_rt_noteOn(d, (OPN2_UInt8)p.a, (OPN2_UInt8)p.b, (OPN2_UInt8)p.c); break;
        case O_NOTEOFF: opn2_rt_noteOff(d, (OPN2_UInt8)p.a, (OPN2_UInt8)p.b); break;
        case O_CC: opn2_rt_controllerChange(d, (OPN2_UInt8)p.a, (OPN2_UInt8)p.b, (OPN2_UInt8)p.c); break;
        case O_PATCH: opn2_rt_patchChange(d, (OPN2_UInt8)p.a, (OPN2_UInt8)p.b); break;
        case O_BEND: opn2_rt_pitchBend(d, (OPN2_UInt8)p.a, (OPN2_UInt16)p.b); break;
        case O_PANIC: opn2_panic(d); break;
        case O_RESETSTATE: opn2_rt_resetState(d); break;
        case O_ADVANCE: advance_ms(p.a); break;
        case O_ATNOTE: opn2_rt_noteAfterTouch(d, (OPN2_UInt8)p.a, (OPN2_UInt8)p.b, (OPN2_UInt8)p.c); break;
        case O_ATCH: opn2_rt_channelAfterTouch(d, (OPN2_UInt8)p.a, (OPN2_UInt8)p.b); break;
        case O_ARP: opn2_setAutoArpeggio(d, p.a); break;
        case O_CHIPS: last_ret = opn2_setNumChips(d, p.a); break;
        case O_EMU: last_ret = opn2_switchEmulator(d, p.a); break;
        case O_RELOADBANK: {
            if(bank_image.empty()) bank_image = default_wopn_image();
            last_ret = opn2_openBankData(d, bank_image.data(), (long)bank_image.size());
            break;
        }
        case O_RESET: opn2_reset(d); break;
        case O_ALLOCMODE: opn2_setChannelAllocMode(d, p.a); break;
        case O_SYSEX: { std::vector<uint8_t> m = canned_sysex(p.a); last_ret = opn2_rt_systemExclusive(d, m.data(), m.size()); break; }
        case O_SETBLANK: { // make melodic program p.a blank (p.b=1) or audible (p.b=0) through the bank API
            OPN2_Bank b;
            if(api_get_bank(d, p.c ? 1 : 0, 0, 0, &b, 0)) {
                OPN2_Instrument in = p.b ? blank_ins() : make_ins((uint8_t)(p.a & 31), 1);
                opn2_setInstrument(d, &b, (unsigned)p.a & 127, &in);
            }
            break;
        }
        case O_PLAYFILE: {
            std::string f = tiny_smf(p.a, p.b, 3);
            last_ret = opn2_openData(d, f.data(), (unsigned long)f.size());
            if(last_ret == 0) { double t = 0; for(int i = 0; i < p.c && i < 64; i++) { t = opn2_tickEvents(d, 0.01, 0.001); (void)t; } }
            break;
        }
        case O_CHIPTYPE: opn2_setChipType(d, p.a); break;
        case O_ADDBANK: { // create bank (percussive p.c, msb p.a, lsb p.b) through the bank API and make all its entries audible
            OPN2_Bank b;
            if(api_get_bank(d, p.c ? 1 : 0, p.a & 127, p.b & 127, &b)) {
                for(unsigned i = 0; i < 128; i++) { OPN2_Instrument in = make_ins((uint8_t)((i + 7) & 31), (uint8_t)(3 + (p.a & 1) * 2 + (p.b & 1)), 0, p.c ? (uint8_t)(35 + (i % 40)) : 0); opn2_setInstrument(d, &b, i, &in); }
            }
            break;
        }
        case O_REMOVEBANK: { // remove that bank if it exists
            OPN2_Bank b;
            if(api_get_bank(d, p.c ? 1 : 0, p.a & 127, p.b & 127, &b, 0)) last_ret = opn2_removeBank(d, &b);
            break;
        }
        }
        drain_tap();
    }
};

// ---------------------------------------------------------------- snapshot of the private voice bookkeeping
struct SnapUser { unsigned midch; unsigned note; unsigned sustained; };
struct SnapNote { unsigned note; bool blank, perc, ext; double ttl, glide; std::vector<unsigned> chans; const OpnInstMeta *ains; };
struct Snapshot {
    std::vector<std::vector<SnapUser>> users;   // per chip channel
    std::vector<std::vector<SnapNote>> notes;   // per MIDI channel
    std::vector<unsigned> glidecnt, extcnt;
    size_t nchan = 0;
    bool anyone_on(unsigned midch, unsigned note) const {
        for(auto &u : users) for(auto &x : u) if(x.midch == midch && x.note == note) return true;
        return false;
    }
};
inline Snapshot take_snapshot(const Inst &I) {
    Snapshot s; OPNMIDIplay *p = I.play();
    s.nchan = p->m_chipChannels.size();
    s.users.resize(s.nchan);
    for(size_t c = 0; c < s.nchan; c++) {
        size_t guard = 0;
        for(OPNMIDIplay::OpnChannel::users_iterator j = p->m_chipChannels[c].users.begin(); !j.is_end(); ++j) {
            const OPNMIDIplay::OpnChannel::LocationData &d = j->value;
            s.users[c].push_back(SnapUser{d.loc.MidCh, d.loc.note, d.sustained});
            VCHECK(++guard <= 1000, "users list of chip channel %zu does not terminate", c);
        }
        VCHECK(guard == p->m_chipChannels[c].users.size(), "users list of chip channel %zu: size() says %zu but the walk found %zu", c, p->m_chipChannels[c].users.size(), guard);
    }
    size_t nm = p->m_midiChannels.size();
    s.notes.resize(nm); s.glidecnt.resize(nm); s.extcnt.resize(nm);
    for(size_t m = 0; m < nm; m++) {
        OPNMIDIplay::MIDIchannel &ch = p->m_midiChannels[m];
        s.glidecnt[m] = ch.gliding_note_count; s.extcnt[m] = ch.extended_note_count;
        size_t guard = 0;
        for(OPNMIDIplay::MIDIchannel::notes_iterator i = ch.activenotes.begin(); !i.is_end(); ++i) {
            const OPNMIDIplay::MIDIchannel::NoteInfo &n = i->value;
            SnapNote sn; sn.note = n.note;
            // bools are read as raw bytes: a blank placeholder note leaves some of them unset
            sn.blank = *(const unsigned char *)&n.isBlank != 0; sn.perc = *(const unsigned char *)&n.isPercussion != 0; sn.ext = *(const unsigned char *)&n.isOnExtendedLifeTime != 0; sn.ttl = n.ttl; sn.glide = n.glideRate; sn.ains = n.ains;
            for(unsigned k = 0; k < n.chip_channels_count && k < 2; k++) sn.chans.push_back(n.chip_channels[k].chip_chan);
            s.notes[m].push_back(sn);
            VCHECK(++guard <= 1000, "activenotes of MIDI channel %zu does not terminate", m);
        }
        VCHECK(guard == ch.activenotes.size(), "activenotes of MIDI channel %zu: size() says %zu but the walk found %zu", m, ch.activenotes.size(), guard);
    }
    return s;
}

} // namespace vf
