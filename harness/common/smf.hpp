// Generated Standard MIDI Files: structure (the reference interpreters work on THIS, not on bytes), writer, and an
// exact rational tempo map. Shared by C07, C08, C09, C17, C01.
#pragma once
#include "verif.hpp"
#include <vector>
#include <string>
#include <map>
#include <sstream>

namespace vf {

struct SEv {
    uint32_t delta = 0;       // ticks since the previous event of the track
    uint8_t status = 0;       // 0x80..0xEF channel message, 0xF0/0xF7 SysEx, 0xFF meta
    uint8_t meta = 0;         // meta type when status == 0xFF
    std::vector<uint8_t> data; // channel: 1-2 data bytes; sysex/meta: payload
    bool running = false;     // write with running status (only honoured when legal)
    // derived
    uint64_t tick = 0;
};
struct STrack { std::vector<SEv> ev; bool eot_present = true; };
struct SSong { int format = 1; unsigned division = 96; std::vector<STrack> tracks; int shared = 0; /* generator mode: all tracks play on channels 0/1, the last data byte of a channel event carries 16*track + r */ };

inline void put_vlq(std::string &o, uint32_t v) {
    uint8_t b[5]; int n = 0; b[n++] = v & 0x7F; v >>= 7;
    while(v) { b[n++] = (uint8_t)(0x80 | (v & 0x7F)); v >>= 7; }
    while(n) o += (char)b[--n];
}
inline std::string smf_write(const SSong &s) {
    std::string o("MThd\0\0\0\6", 8);
    o += (char)0; o += (char)s.format; o += (char)(s.tracks.size() >> 8); o += (char)(s.tracks.size() & 255);
    o += (char)(s.division >> 8); o += (char)(s.division & 255);
    for(const STrack &t : s.tracks) {
        std::string b; int last_status = -1;
        for(const SEv &e : t.ev) {
            put_vlq(b, e.delta);
            if(e.status == 0xFF) { b += (char)0xFF; b += (char)e.meta; put_vlq(b, (uint32_t)e.data.size()); b.append((const char *)e.data.data(), e.data.size()); last_status = -1; }
            else if(e.status == 0xF0 || e.status == 0xF7) { b += (char)e.status; put_vlq(b, (uint32_t)e.data.size()); b.append((const char *)e.data.data(), e.data.size()); last_status = -1; }
            else {
                if(!(e.running && last_status == e.status)) b += (char)e.status;
                b.append((const char *)e.data.data(), e.data.size()); last_status = e.status;
            }
        }
        o += "MTrk"; o += (char)(b.size() >> 24); o += (char)(b.size() >> 16); o += (char)(b.size() >> 8); o += (char)(b.size() & 255);
        o += b;
    }
    return o;
}
inline void smf_ticks(SSong &s) { for(STrack &t : s.tracks) { uint64_t k = 0; for(SEv &e : t.ev) { k += e.delta; e.tick = k; } } }

// text form (replay files)
inline std::string smf_ser(const SSong &s) {
    std::ostringstream o; o << "song " << s.format << " " << s.division << " " << s.tracks.size() << "\n"; if(s.shared) o << "shared " << s.shared << "\n";
    for(const STrack &t : s.tracks) { o << "track " << t.ev.size() << "\n"; for(const SEv &e : t.ev) o << "e " << e.delta << " " << (int)e.status << " " << (int)e.meta << " " << (int)e.running << " " << (e.data.empty() ? "-" : hex(e.data.data(), e.data.size())) << "\n"; }
    return o.str();
}
inline SSong smf_deser(std::istream &in) {
    SSong s; std::string w; size_t nt = 0; in >> w >> s.format >> s.division >> nt;
    for(size_t i = 0; i < nt; i++) { size_t ne = 0; in >> w; if(w == "shared") { in >> s.shared >> w; } in >> ne; STrack t; for(size_t k = 0; k < ne; k++) { SEv e; int st, me, ru; std::string h; in >> w >> e.delta >> st >> me >> ru >> h; e.status = (uint8_t)st; e.meta = (uint8_t)me; e.running = ru != 0; if(h != "-") e.data = unhex(h); t.ev.push_back(e); } s.tracks.push_back(t); }
    smf_ticks(s);
    return s;
}

// ---------------------------------------------------------------- exact tempo map (track 0 tempo events), times in microseconds as a rational over `division`
struct TempoMap {
    unsigned division = 96;
    std::vector<std::pair<uint64_t, uint32_t>> changes; // (tick, microseconds per quarter), ascending ticks
    // numerator of the time at `tick` in units of (microseconds / division): exact integer
    unsigned __int128 scaled_us(uint64_t tick) const {
        unsigned __int128 acc = 0; uint64_t pos = 0; uint32_t tempo = 500000;
        for(auto &c : changes) {
            if(c.first >= tick) break;
            acc += (unsigned __int128)(c.first - pos) * tempo; pos = c.first; tempo = c.second;
        }
        acc += (unsigned __int128)(tick - pos) * tempo;
        return acc;
    }
    double seconds(uint64_t tick) const { return (double)((long double)scaled_us(tick) / (long double)division / 1e6L); }
};
// builds the map from the tempo metas of track 0; a tempo event at tick T applies to ticks after T. Several at one tick: last wins.
inline TempoMap tempo_map(const SSong &s) {
    TempoMap m; m.division = s.division;
    if(s.tracks.empty()) return m;
    for(const SEv &e : s.tracks[0].ev) if(e.status == 0xFF && e.meta == 0x51 && e.data.size() == 3) {
        uint32_t v = ((uint32_t)e.data[0] << 16) | ((uint32_t)e.data[1] << 8) | e.data[2];
        if(!m.changes.empty() && m.changes.back().first == e.tick) m.changes.back().second = v; else m.changes.push_back({e.tick, v});
    }
    return m;
}

} // namespace vf
