// C01: untrusted music data never crashes, corrupts memory or hangs the player.
// Engines: libFuzzer (-DVERIF_FUZZ: file bytes + decoded option/op tail) and rapidcheck (valid generated files + structured
// mutations). Oracle: return-value/error-text contract, ASan/UBSan/asserts, CPU-time watchdog, allocation cap, and
// "a known-good file still loads afterwards".
#include "common/inst.hpp"
#include "common/smf.hpp"
#include <cmath>
#ifdef VERIF_FUZZ
#include "common/fuzz_util.hpp"
#else
#include "common/rc_util.hpp"
#include "common/smf_gen.hpp"
#endif
#include "common/ops.hpp"

using namespace vf;

// ---- "time and memory proportional to the input size": live heap bytes above the level at the start of the case (ASan malloc/free
// hooks) and CPU time of each load call. Bounds are linear in the input size with constants far above anything the unchanged code
// needs (measured maxima are reported in the evidence as max_*), so they catch costs that do not depend on the amount of input.
extern "C" int __sanitizer_install_malloc_and_free_hooks(void (*malloc_hook)(const volatile void *, size_t), void (*free_hook)(const volatile void *));
extern "C" size_t __sanitizer_get_allocated_size(const volatile void *p);
struct HeapMeter {
    static long long &live() { static long long v = 0; return v; }
    static long long &peak() { static long long v = 0; return v; }
    static void on_malloc(const volatile void *, size_t n) { live() += (long long)n; if(live() > peak()) peak() = live(); }
    static void on_free(const volatile void *p) { if(p) live() -= (long long)__sanitizer_get_allocated_size(p); }
    static void install() { static bool done = false; if(!done) { done = true; __sanitizer_install_malloc_and_free_hooks(on_malloc, on_free); } }
    static void start() { install(); live() = 0; peak() = 0; }
};
static double thread_cpu() { struct timespec ts; clock_gettime(CLOCK_THREAD_CPUTIME_ID, &ts); return (double)ts.tv_sec + 1e-9 * (double)ts.tv_nsec; }
static const long long MEM_BASE = 64ll << 20, MEM_PER_BYTE = 128ll << 10;   // live bytes allowed: 64 MiB + 128 KiB per input byte
static const double CPU_BASE = 5.0, CPU_PER_BYTE = 2e-3;                      // CPU seconds allowed per load call: 5 s + 2 ms per input byte

struct FOp { int kind = 0; int a = 0, b = 0; };
struct Case { std::string file; int song_before = -1000, loop = 0, loop_count = -1, tempo_sel = 0; std::vector<FOp> ops; };
enum { K_TICK, K_PLAY, K_SEEK, K_REWIND, K_QUERY, K_SELECT, K_TRACKOPT, K_CHANEN, K_META, K_TITLE, K_MARKER, K_DESCRIBE, K_REOPEN, K_REOPEN_TRUNC, K_VOLMODEL, K_NK };
static const char *const kn[K_NK] = {"tick", "play", "seek", "rewind", "query", "select", "trackopt", "chanen", "meta", "title", "marker", "describe", "reopen", "reopentrunc", "volmodel"};

static std::string ser(const Case &c) {
    std::ostringstream o; o << "c01 " << c.song_before << " " << c.loop << " " << c.loop_count << " " << c.tempo_sel << " " << c.ops.size() << "\n";
    for(const FOp &p : c.ops) o << kn[p.kind] << " " << p.a << " " << p.b << "\n";
    o << "file " << c.file.size() << "\n" << hex(c.file.data(), c.file.size()) << "\n";
    return o.str();
}
static Case deser(const std::string &s) {
    Case c; std::istringstream in(s); std::string w; size_t n = 0; in >> w >> c.song_before >> c.loop >> c.loop_count >> c.tempo_sel >> n;
    for(size_t i = 0; i < n; i++) { FOp p; std::string k; in >> k >> p.a >> p.b; for(int q = 0; q < K_NK; q++) if(k == kn[q]) p.kind = q; c.ops.push_back(p); }
    size_t fl = 0; std::string h; in >> w >> fl; if(fl) in >> h; auto v = unhex(h); c.file.assign(v.begin(), v.end());
    return c;
}

struct Info { bool loaded = false, past_detection = false; int ops_run = 0; std::string format; long long peak_live = 0; double load_cpu = 0; };

static const std::string &good_smf() { static std::string g = tiny_smf(0, 60, 3); return g; }

static void run(const Case &c, Info &info) {
    opnmidi_verif_tap = NULL; opnmidi_verif_frames = NULL;
    Inst I(8000); VCHECK(I.dev, "init failed");
    OPN2_MIDIPlayer *d = I.dev;
    opn2_switchEmulator(d, EMU_NP2); opn2_setNumChips(d, 1); install_default_banks(d, 200, 20);
    HeapMeter::start();
    if(c.song_before > -1000) opn2_selectSongNum(d, c.song_before);
    opn2_setLoopEnabled(d, c.loop); opn2_setLoopCount(d, c.loop_count);
    static const double tempos[] = {1.0, 0.25, 4.0, 100.0};
    opn2_setTempo(d, tempos[(size_t)c.tempo_sel % 4]);
    auto load = [&](const std::string &bytes) {
        // exact-size heap copy so that a read past the block is visible
        std::vector<uint8_t> exact(bytes.begin(), bytes.end());
        double t0 = thread_cpu();
        int r = opn2_openData(d, exact.empty() ? (const void *)"" : (const void *)exact.data(), (unsigned long)exact.size());
        double dt = thread_cpu() - t0; if(dt > info.load_cpu) info.load_cpu = dt;
        VCHECK(dt <= CPU_BASE + CPU_PER_BYTE * (double)bytes.size(), "loading %zu bytes took %.2f s of CPU time (allowed: %.1f s + %.0f ms per byte)", bytes.size(), dt, CPU_BASE, CPU_PER_BYTE * 1e3);
        VCHECK(HeapMeter::peak() <= MEM_BASE + MEM_PER_BYTE * (long long)std::max(bytes.size(), c.file.size()), "loading %zu bytes (case file: %zu bytes) raised the live heap by %lld bytes (allowed: 64 MiB + 128 KiB per byte)", bytes.size(), c.file.size(), HeapMeter::peak());
        VCHECK(r == 0 || r == -1, "openData returned %d", r);
        if(r != 0) VCHECK(opn2_errorInfo(d)[0] != 0, "a rejected file left no error text");
        return r;
    };
    int r = load(c.file);
    info.loaded = r == 0;
    std::string err = r ? opn2_errorInfo(d) : "";
    info.past_detection = r == 0 || err.find("Unknown or unsupported") == std::string::npos;
    std::vector<short> buf;
    for(const FOp &p : c.ops) {
        switch(p.kind) {
        case K_TICK: { static const double dt[] = {0, 1e-6, 1e-3, 0.01, 0.5, 5.0, 60.0}; static const double g[] = {1e-6, 1e-3, 1.0 / 8000}; double w = opn2_tickEvents(d, dt[(size_t)p.a % 7], g[(size_t)p.b % 3]); VCHECK(!(w < 0) && !std::isnan(w), "tickEvents returned %g", w); break; }
        case K_PLAY: { int n = p.a % 4100; buf.resize((size_t)n + 2); int got = opn2_play(d, n, buf.data()); VCHECK(got >= 0 && got <= n, "play(%d) returned %d", n, got); break; }
        case K_SEEK: { static const double t[] = {-1, 0, 1e-3, 0.5, 1, 10, 100, 1e6}; opn2_positionSeek(d, t[(size_t)p.a % 8]); break; }
        case K_REWIND: opn2_positionRewind(d); break;
        case K_QUERY: { double a1 = opn2_totalTimeLength(d), a2 = opn2_loopStartTime(d), a3 = opn2_loopEndTime(d), a4 = opn2_positionTell(d); (void)a1; (void)a2; (void)a3; (void)a4; opn2_atEnd(d); opn2_trackCount(d); int sc = opn2_getSongsCount(d); VCHECK(sc >= 0 && sc < 100000, "getSongsCount %d", sc); break; }
        case K_SELECT: opn2_selectSongNum(d, (p.a % 9) - 3); break;
        case K_TRACKOPT: opn2_setTrackOptions(d, (size_t)(p.a % 40), (unsigned)(p.b % 5)); break;
        case K_CHANEN: opn2_setChannelEnabled(d, (size_t)(p.a % 18), p.b & 1); break;
        case K_META: { const char *t = opn2_metaMusicTitle(d), *cp = opn2_metaMusicCopyright(d); VCHECK(t && cp && strlen(t) < (1u << 20) && strlen(cp) < (1u << 20), "meta strings broken"); opn2_metaTrackTitleCount(d); opn2_metaMarkerCount(d); break; }
        case K_TITLE: { size_t n = opn2_metaTrackTitleCount(d); const char *t = opn2_metaTrackTitle(d, (size_t)p.a % (n + 3)); VCHECK(t && strlen(t) < (1u << 20), "track title broken"); break; }
        case K_MARKER: { size_t n = opn2_metaMarkerCount(d); Opn2_MarkerEntry m = opn2_metaMarker(d, (size_t)p.a % (n + 3)); VCHECK(m.label && strlen(m.label) < (1u << 20), "marker label broken"); break; }
        case K_DESCRIBE: { char t[64], a[64]; opn2_describeChannels(d, t, a, sizeof t); break; }
        case K_VOLMODEL: opn2_setVolumeRangeModel(d, p.a % 8); break;
        case K_REOPEN: load(c.file); break;
        case K_REOPEN_TRUNC: load(c.file.substr(0, c.file.size() * (size_t)(1 + p.a % 7) / 8)); break;
        }
        info.ops_run++;
        VCHECK(HeapMeter::peak() <= MEM_BASE + MEM_PER_BYTE * (long long)c.file.size(), "after '%s' on a %zu-byte file the live heap had grown by %lld bytes (allowed: 64 MiB + 128 KiB per byte)", kn[p.kind], c.file.size(), HeapMeter::peak());
    }
    info.peak_live = HeapMeter::peak();
    // after anything at all, a known-good file loads and plays
    opn2_selectSongNum(d, 0);
    VCHECK(load(good_smf()) == 0, "a known-good SMF is rejected after the hostile file: %s", opn2_errorInfo(d));
    opn2_setTempo(d, 1.0); opn2_setLoopEnabled(d, 0);
    size_t guard = 0; double w = 0; while(!opn2_atEnd(d)) { w = opn2_tickEvents(d, w > 1e-3 ? w : 1e-3, 1e-3); VCHECK(++guard < 100000, "the known-good song does not end after the hostile file"); }
}

static void account(const Case &c, const Info &info, uint64_t h) {
    Stats &st = ctx().stats;
    bool nt = info.past_detection && info.ops_run > 0;
    std::string sample; if(nt && st.samples.size() < 3) sample = fmt("%s, %zu bytes: ", info.loaded ? "loaded" : "rejected after format detection", c.file.size()) + hex(c.file.data(), std::min<size_t>(c.file.size(), 40)) + fmt("... + %zu ops", c.ops.size());
    st.note_case_hash(h, nt, sample);
    st.label(info.loaded ? "loaded" : (info.past_detection ? "rejected_by_a_format_parser" : "rejected_unknown_format"));
    const char *m = "other"; const std::string &f = c.file;
    if(f.size() >= 4) { if(!memcmp(f.data(), "MThd", 4)) m = "SMF"; else if(!memcmp(f.data(), "RIFF", 4)) m = "RMI"; else if(!memcmp(f.data(), "GMF\1", 4)) m = "GMF"; else if(!memcmp(f.data(), "MUS\x1a", 4)) m = "MUS"; else if(!memcmp(f.data(), "FORM", 4)) m = "XMI"; else if(!memcmp(f.data(), "CTMF", 4)) m = "CMF"; }
    st.label(std::string("magic:") + m);
    double &mp = st.numbers["max_peak_live_heap_bytes"]; if((double)info.peak_live > mp) mp = (double)info.peak_live;
    double &mr = st.numbers["max_peak_live_heap_bytes_per_input_byte"]; if(!c.file.empty() && (double)info.peak_live / (double)c.file.size() > mr) mr = (double)info.peak_live / (double)c.file.size();
    double &mc = st.numbers["max_load_cpu_seconds"]; if(info.load_cpu > mc) mc = info.load_cpu;
}

#ifdef VERIF_FUZZ
extern "C" int LLVMFuzzerInitialize(int *argc, char ***argv) { return fuzz_init(argc, argv); }
extern "C" int LLVMFuzzerTestOneInput(const uint8_t *data, size_t size) {
    Case c;
    if(size > 4 && memcmp(data, "c01 ", 4) == 0) c = deser(std::string((const char *)data, size));
    else {
        Bytes b(data, size);
        c.song_before = (int)b.u(0, 9) - 3; if(c.song_before > 5) c.song_before = -1000;
        c.loop = (int)b.u(0, 1); c.loop_count = (int)b.u(0, 5) - 1; c.tempo_sel = (int)b.u(0, 3);
        int nops = (int)b.u(0, 12);
        for(int i = 0; i < nops; i++) { FOp p; p.kind = (int)b.u(0, K_NK - 1); p.a = (int)b.u(0, 65535); p.b = (int)b.u(0, 255); c.ops.push_back(p); }
        c.file = b.rest(); if(c.file.size() > 65536) c.file.resize(65536);
    }
    Info info; arm_watchdog(30);
    try { run(c, info); } catch(const Fail &f) { fuzz_fail(f.msg); }
    account(c, info, fnv(data, size));
    return 0;
}
#else
// ---------------------------------------------------------------- valid files of every front-end + structured mutations
static std::string wrap_rmi(const std::string &smf) { std::string r("RIFF", 4); auto le = [&](uint32_t v) { r += (char)v; r += (char)(v >> 8); r += (char)(v >> 16); r += (char)(v >> 24); }; le((uint32_t)(12 + smf.size())); r += "RMIDdata"; le((uint32_t)smf.size()); return r + smf; }
static std::string small_mus() { std::string b; b += (char)0x10; b += (char)(60 | 0x80); b += (char)100; b += (char)0x80; b += (char)60; b += (char)5; b += (char)0x4F; b += (char)3; b += (char)90; b += (char)0x3F; b += (char)11; b += (char)0x60;
    std::string h("MUS\x1a", 4); auto le16 = [&](unsigned v) { h += (char)(v & 255); h += (char)(v >> 8); }; le16((unsigned)b.size()); le16(16); le16(1); le16(0); le16(0); le16(0); return h + b; }
static std::string small_xmi(int songs) {
    auto be32 = [](std::string &o, uint32_t v) { o += (char)(v >> 24); o += (char)(v >> 16); o += (char)(v >> 8); o += (char)v; };
    auto chunk = [&](const char *id, const std::string &body) { std::string o(id, 4); be32(o, (uint32_t)body.size()); o += body; if(body.size() & 1) o += (char)0; return o; };
    std::string cat = "XMID";
    for(int i = 0; i < songs; i++) { std::string ev("\xFF\x51\x03\x07\xA1\x20", 6); ev += (char)0x90; ev += (char)(60 + i); ev += (char)100; ev += (char)0x10; ev += (char)0x20; ev += (char)0xB0; ev += (char)7; ev += (char)90; ev += (char)0x30; ev += (char)0xFF; ev += (char)0x2F; ev += (char)0; cat += chunk("FORM", "XMID" + chunk("TIMB", std::string("\1\0\0\0", 4)) + chunk("EVNT", ev)); }
    std::string info; info += (char)songs; info += (char)0;
    return chunk("FORM", "XDIR" + chunk("INFO", info)) + chunk("CAT ", cat);
}
static std::string smf_with_everything() {
    SSong s; s.format = 1; s.division = 96; STrack t0, t1; auto add = [](STrack &t, uint32_t d, uint8_t st, uint8_t meta, std::vector<uint8_t> data, bool run = false) { SEv e; e.delta = d; e.status = st; e.meta = meta; e.data = data; e.running = run; t.ev.push_back(e); };
    add(t0, 0, 0xFF, 0x03, {'t', 'i', 't', 'l', 'e'}); add(t0, 0, 0xFF, 0x02, {'(', 'c', ')'}); add(t0, 0, 0xFF, 0x51, {7, 0xA1, 0x20}); add(t0, 0, 0xFF, 0x58, {4, 2, 24, 8}); add(t0, 0, 0xFF, 0x06, {'l', 'o', 'o', 'p', 'S', 't', 'a', 'r', 't'});
    add(t0, 10, 0xFF, 0x09, {'d', 'e', 'v'}); add(t0, 0, 0x90, 0, {60, 100}); add(t0, 5, 0x90, 0, {64, 90}, true); add(t0, 20, 0x80, 0, {60, 0}); add(t0, 0, 0xF0, 0, {0x7E, 0x7F, 0x09, 0x01, 0xF7}); add(t0, 3, 0xFF, 0x06, {'l', 'o', 'o', 'p', 'E', 'n', 'd'}); add(t0, 200, 0xFF, 0x2F, {});
    add(t1, 0, 0xFF, 0x03, {'t', 'r', 'k'}); add(t1, 1, 0xC9, 0, {1}); add(t1, 0, 0x99, 0, {36, 127}); add(t1, 2, 0xB9, 0, {111, 0}); add(t1, 4, 0xE9, 0, {0, 0x50}); add(t1, 0, 0xA9, 0, {36, 50}); add(t1, 0, 0xD9, 0, {40}); add(t1, 0, 0xF7, 0, {1, 2, 3}); add(t1, 9, 0xFF, 0x2F, {});
    s.tracks = {t0, t1}; smf_ticks(s); return smf_write(s);
}
// XMI song with two FOR loops, the first left by BREAK, the second closed by NEXT (balanced)
static std::string xmi_with_loops() {
    auto be32 = [](std::string &o, uint32_t v) { o += (char)(v >> 24); o += (char)(v >> 16); o += (char)(v >> 8); o += (char)v; };
    auto chunk = [&](const char *id, const std::string &body) { std::string o(id, 4); be32(o, (uint32_t)body.size()); o += body; if(body.size() & 1) o += (char)0; return o; };
    const uint8_t ev[] = {0xB0, 116, 2, 40, 0x90, 60, 100, 10, 40, 0xB0, 117, 0, 40, 0xB0, 116, 2, 40, 0x90, 62, 100, 10, 40, 0xB0, 117, 127, 40, 0xFF, 0x2F, 0x00};
    std::string cat = "XMID"; cat += chunk("FORM", "XMID" + chunk("EVNT", std::string((const char *)ev, sizeof ev)));
    std::string info; info += (char)1; info += (char)0;
    return chunk("FORM", "XDIR" + chunk("INFO", info)) + chunk("CAT ", cat);
}
// SMF with two marker-stack loops ("loopstart=2" ... "loopend=") one after the other
static std::string smf_with_stack_loops() {
    SSong s; s.format = 0; s.division = 96; STrack t; auto add = [&](uint32_t d, uint8_t st, uint8_t meta, std::vector<uint8_t> data) { SEv e; e.delta = d; e.status = st; e.meta = meta; e.data = data; t.ev.push_back(e); };
    auto text = [](const char *x) { return std::vector<uint8_t>(x, x + strlen(x)); };
    add(0, 0xFF, 0x06, text("loopStart=2")); add(10, 0x90, 0, {60, 100}); add(40, 0x80, 0, {60, 0}); add(5, 0xFF, 0x06, text("loopEnd=0"));
    add(20, 0xFF, 0x06, text("loopStart=3")); add(10, 0x90, 0, {62, 100}); add(40, 0x80, 0, {62, 0}); add(5, 0xFF, 0x06, text("loopEnd=0")); add(30, 0xFF, 0x2F, {});
    s.tracks = {t}; smf_ticks(s); return smf_write(s);
}
// SMF that spells the sequencer's internal event codes (FF E1..E7) directly, each with the payload that code expects
static std::string smf_with_internal_codes() {
    SSong s; s.format = 0; s.division = 96; STrack t; auto add = [&](uint32_t d, uint8_t st, uint8_t meta, std::vector<uint8_t> data) { SEv e; e.delta = d; e.status = st; e.meta = meta; e.data = data; t.ev.push_back(e); };
    add(0, 0xFF, 0xE4, {2}); add(10, 0x90, 0, {60, 100}); add(0, 0xFF, 0xE7, {5}); add(20, 0x80, 0, {60, 0}); add(0, 0xFF, 0xE3, {0x20, 0x01}); add(5, 0xFF, 0xE5, {}); add(5, 0xFF, 0xE1, {}); add(10, 0x90, 0, {62, 90});
    add(10, 0x80, 0, {62, 0}); add(0, 0xFF, 0xE2, {}); add(20, 0xFF, 0x2F, {});
    s.tracks = {t}; smf_ticks(s); return smf_write(s);
}
// SMF whose tracks switch between n distinct output ports (device-name meta FF 09): every new name adds 16 MIDI channels
static std::string smf_with_ports(int n) {
    SSong s; s.format = 1; s.division = 96; STrack t0, t1; auto add = [](STrack &t, uint32_t d, uint8_t st, uint8_t meta, std::vector<uint8_t> data) { SEv e; e.delta = d; e.status = st; e.meta = meta; e.data = data; t.ev.push_back(e); };
    for(int i = 0; i < n; i++) { STrack &t = (i & 1) ? t1 : t0; add(t, i ? 3 : 0, 0xFF, 0x09, {'p', (uint8_t)('A' + i / 26), (uint8_t)('a' + i % 26)}); add(t, 0, (uint8_t)(0x90 | (i & 15)), 0, {(uint8_t)(40 + i % 40), 100}); add(t, 2, (uint8_t)(0x80 | (i & 15)), 0, {(uint8_t)(40 + i % 40), 0}); }
    add(t0, 10, 0xFF, 0x2F, {}); add(t1, 10, 0xFF, 0x2F, {});
    s.tracks = {t0, t1}; smf_ticks(s); return smf_write(s);
}
static std::vector<std::string> valid_files() {
    std::vector<std::string> v; std::string smf = smf_with_everything();
    v.push_back(smf); v.push_back(tiny_smf(0, 60, 3)); v.push_back(wrap_rmi(tiny_smf(9, 36, 4)));
    { std::string g("GMF\x01\0\0\0", 7); g += tiny_smf(0, 50, 4).substr(22); v.push_back(g); }
    v.push_back(small_mus()); v.push_back(small_xmi(1)); v.push_back(small_xmi(3)); v.push_back(xmi_with_loops()); v.push_back(smf_with_stack_loops());
    v.push_back(std::string("CTMF\1\1\x28\0\x34\0\xC0\0\0\0\0\0\0\0\0\0\0\0\0\0", 24) + std::string(40, '\0'));
    v.push_back(smf_with_internal_codes()); v.push_back(smf_with_ports(3)); v.push_back(smf_with_ports(15)); v.push_back(smf_with_ports(16)); v.push_back(smf_with_ports(17)); v.push_back(smf_with_ports(40));
    return v;
}
static std::string mutate(std::string f, int kind, int pos, int val) {
    if(f.empty()) return f;
    size_t p = (size_t)pos % f.size();
    auto put32 = [&](size_t at, uint32_t v) { if(at + 4 <= f.size()) { f[at] = (char)(v >> 24); f[at + 1] = (char)(v >> 16); f[at + 2] = (char)(v >> 8); f[at + 3] = (char)v; } };
    static const uint32_t lens[] = {0, 1, 0x7fffffffu, 0xffffffffu, 0xfffffff0u, 65536, 0x00010000};
    switch(kind % 14) {
    case 0: f.resize(p); break;                                            // truncate anywhere
    case 1: { size_t at = f.find("MTrk"); if(at != std::string::npos) put32(at + 4, lens[(size_t)val % 7]); else put32(p, lens[(size_t)val % 7]); break; }  // track length field
    case 2: { size_t at = f.find("MThd"); if(at != std::string::npos && at + 14 <= f.size()) { f[at + 12] = (char)(val >> 8 & (val & 1 ? 0 : 0xFF)); f[at + 13] = (char)(val & 2 ? 0 : val); } break; } // division (0 included)
    case 3: f[p] = (char)val; break;                                       // one byte
    case 4: f[p] = (char)0xFF; if(p + 1 < f.size()) f.resize(p + 1); break; // ends on FF
    case 5: f[p] = (char)(f[p] | 0x80); if(p + 1 < f.size()) f[p + 1] = (char)(f[p + 1] | 0x80); break; // unterminated VLQ
    case 6: f.insert(p, f.substr(p, (size_t)val % 64 + 1)); break;           // duplicate a slice
    case 7: { size_t at = f.find("EVNT"); if(at == std::string::npos) at = f.find("FORM"); if(at != std::string::npos) put32(at + 4, lens[(size_t)val % 7]); break; } // IFF chunk length
    case 8: { if(f.size() > 8 && !memcmp(f.data(), "MUS\x1a", 4)) { f[4 + (val & 7)] = (char)(val >> 3); } else f.erase(p, (size_t)val % 16 + 1); break; } // MUS header fields / delete a slice
    case 9: { size_t at = f.find("MThd"); if(at != std::string::npos && at + 12 <= f.size()) { f[at + 10] = (char)(val >> 8); f[at + 11] = (char)val; } break; } // track count
    case 10: f.append((size_t)val % 32, (char)(val >> 5)); break;           // trailing bytes
    case 11: { // declared length of a meta event (FF tt ll): 0, 1, 2, longer than the data, multi-byte
        std::vector<size_t> at; for(size_t i = 0; i + 2 < f.size(); i++) if((unsigned char)f[i] == 0xFF && (unsigned char)f[i + 1] < 0x80) at.push_back(i);
        if(!at.empty()) { size_t i = at[p % at.size()]; static const int ln[] = {0, 1, 2, 4, 0x7F, 0x81}; f[i + 2] = (char)ln[(size_t)val % 6];
            // ... and optionally its type: tempo, or one of the codes the sequencer uses internally for loop points, callbacks and raw chip writes
            static const int ty[] = {-1, 0x51, -1, 0x51, 0x51, 0xE1, 0xE2, 0xE3, 0xE4, 0xE5, 0xE6, 0xE7, 0x09, 0x2F, 0x06, 0x7F}; int t = ty[(size_t)(val >> 4) % 16]; if(t >= 0) f[i + 1] = (char)t; }
        break; }
    case 12: { // XMI: a branch table (RBRN) of n entries, ids repeating, in front of the first EVNT chunk
        size_t at = f.find("EVNT"); if(at == std::string::npos) break;
        static const int ns[] = {1, 2, 127, 128, 129, 200, 1000, 4000}; int n = ns[(size_t)val % 8];
        std::string body; body += (char)(n & 255); body += (char)(n >> 8);
        for(int i = 0; i < n; i++) { body += (char)((i * 7 + (val >> 3)) & ((val & 0x100) ? 0xFF : 0x7F)); body += (char)0; body += (char)(i & 31); body += (char)0; body += (char)0; body += (char)0; }
        std::string ch("RBRN", 4); uint32_t l = (uint32_t)body.size(); ch += (char)(l >> 24); ch += (char)(l >> 16); ch += (char)(l >> 8); ch += (char)l; ch += body; if(body.size() & 1) ch += (char)0;
        f.insert(at, ch);
        // keep the enclosing FORM/CAT lengths plausible: grow every IFF length field in front of the insertion point
        for(const char *tag : {"CAT ", "FORM"}) { size_t q = 0; while((q = f.find(tag, q)) != std::string::npos && q < at) { if(q + 8 <= f.size()) { uint32_t v = ((uint32_t)(unsigned char)f[q + 4] << 24) | ((uint32_t)(unsigned char)f[q + 5] << 16) | ((uint32_t)(unsigned char)f[q + 6] << 8) | (unsigned char)f[q + 7]; if(q + 8 + v >= at) put32(q + 4, v + (uint32_t)ch.size()); } q += 4; } }
        break; }
    default: for(int i = 0; i < 4; i++) f[(p + (size_t)i * 7919) % f.size()] ^= (char)(1 << ((val + i) & 7)); break; // bit flips
    }
    if(f.size() > 65536) f.resize(65536);
    return f;
}
void showValue(const Case &c, std::ostream &os) { os << ser(c).substr(0, 600); }

int main(int argc, char **argv) {
    parse_args(argc, argv);
    Ctx &c = ctx();
    if(!c.kv.count("budget")) c.cpu_budget_s = 30; else c.cpu_budget_s = c.opt("budget", 30);
    if(c.mode == "replay") return replay_main([](const std::string &s) { Info info; Case cs; if(s.rfind("c01 ", 0) == 0) cs = deser(s); else { cs.file = s; cs.ops.push_back(FOp{K_TICK, 5, 0}); cs.ops.push_back(FOp{K_PLAY, 1000, 0}); cs.ops.push_back(FOp{K_SEEK, 3, 0}); cs.ops.push_back(FOp{K_QUERY, 0, 0}); } run(cs, info); });
    if(c.mode == "seeds") { std::string out = c.opts("out", "."); int i = 0; for(const std::string &f : valid_files()) { FILE *fo = fopen((out + "/seed" + std::to_string(i++) + ".bin").c_str(), "wb"); fwrite(f.data(), 1, f.size(), fo); fclose(fo); } return 0; }
    pbt("c01_mutate_valid", c.n, 40, []() {
        Case cs; std::vector<std::string> base = valid_files();
        int which = *rng<int>(0, (int)base.size() + 2);
        if(which >= (int)base.size()) { SSong s = *genSong(); for(STrack &t : s.tracks) for(SEv &e : t.ev) if(e.delta > 5000) e.delta = e.delta % 500; cs.file = smf_write(s); if(which == (int)base.size() + 1) cs.file = wrap_rmi(cs.file); }
        else cs.file = base[(size_t)which];
        int nm = *rng<int>(0, 4);
        for(int i = 0; i < nm; i++) cs.file = mutate(cs.file, *rng<int>(0, 13), *rng<int>(0, 70000), *rng<int>(0, 65535));
        cs.song_before = *rc::gen::element(-1000, -1000, 0, 1, 2, -1, -2, 5); cs.loop = *rng<int>(0, 1); cs.loop_count = *rng<int>(-1, 3); cs.tempo_sel = *rng<int>(0, 3);
        cs.ops = *rc::gen::resize(12, rc::gen::container<std::vector<FOp>>(rc::gen::map(rc::gen::tuple(rng<int>(0, K_NK - 1), rng<int>(0, 65535), rng<int>(0, 255)), [](std::tuple<int, int, int> t) { return FOp{std::get<0>(t), std::get<1>(t), std::get<2>(t)}; })));
        std::string s = ser(cs);
        run_case(s, [&] { Info info; run(cs, info); account(cs, info, fnv(s)); });
    });
    return finish();
}
#endif
