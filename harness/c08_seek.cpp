// C08: seeking equals playing up to the target, minus the sounding notes.
// Engine: rapidcheck (generated SMF + play/seek histories); oracles: differential twin (rewind + linear ticking instead of
// each seek) for controller state and the following event stream, and the independent reference interpreter for event times.
#include "common/inst.hpp"
#include "common/smf.hpp"
#include "common/rc_util.hpp"
#include "common/smf_gen.hpp"
#include <cmath>
#include <set>
#include <map>

using namespace vf;

struct Case { SSong song; int play_first_permille = 0; std::vector<int> targets; /* >=0: midpoint index, -1: negative, -2: beyond the end */ int loop = 0; /* looping enabled (targets stay before the loop end) */ };
static std::string ser(const Case &c) { std::ostringstream o; if(c.loop) o << "seekl " << c.loop << " "; else o << "seek "; o << c.play_first_permille << " " << c.targets.size(); for(int t : c.targets) o << " " << t; o << "\n" << smf_ser(c.song); return o.str(); }
static Case deser(const std::string &s) { Case c; std::istringstream in(s); std::string w; size_t n = 0; in >> w; if(w == "seekl") in >> c.loop; in >> c.play_first_permille >> n; for(size_t i = 0; i < n; i++) { int t; in >> t; c.targets.push_back(t); } c.song = smf_deser(in); return c; }

struct Ev { int type = 0, sub = 0, ch = 0; std::vector<uint8_t> data; double tell = 0; };
static std::string show(const Ev &e) { return fmt("type %02X sub %02X ch %d data %s @%.6f", e.type, e.sub, e.ch, hex(e.data.data(), e.data.size()).c_str(), e.tell); }
struct Rec { std::vector<Ev> got; OPN2_MIDIPlayer *dev = nullptr; bool on = false; };
static void raw_hook(void *ud, OPN2_UInt8 type, OPN2_UInt8 subtype, OPN2_UInt8 channel, const OPN2_UInt8 *data, size_t len) {
    Rec *r = (Rec *)ud; if(!r->on || r->got.size() > 300000) return; Ev e; e.type = type; e.sub = subtype; e.ch = channel; if(len) e.data.assign(data, data + len); e.tell = opn2_positionTell(r->dev); r->got.push_back(e);
}

static const double G = 1e-6;
struct Player {
    Inst I; Rec rec; double d = 0;
    void start(const std::string &img, int loop = 0) {
        I.open(8000); opn2_switchEmulator(I.dev, EMU_NP2); opn2_setNumChips(I.dev, 2); install_default_banks(I.dev, 200, 20);
        rec.dev = I.dev; opn2_setRawEventHook(I.dev, raw_hook, &rec); opn2_setLoopEnabled(I.dev, loop);
        VCHECK(opn2_openData(I.dev, img.data(), (unsigned long)img.size()) == 0, "generated SMF rejected: %s", opn2_errorInfo(I.dev));
    }
    // tick until the position reaches `t` exactly (never beyond) or the song ends
    void tick_to(double t) {
        size_t guard = 0;
        while(!opn2_atEnd(I.dev)) {
            double pos = opn2_positionTell(I.dev), left = t - pos;
            if(left <= 0) break;
            double step = d > G ? d : G; if(step > left) step = left;
            d = opn2_tickEvents(I.dev, step, G);
            VCHECK(++guard < 2000000, "ticking does not make progress");
        }
    }
    // looping songs never end: play on for `span` seconds of song time (across the loop wrap)
    void tick_for(double span) { size_t guard = 0; double acc = 0; while(acc < span && !opn2_atEnd(I.dev) && rec.got.size() <= 300000) { double step = d > G ? d : G; if(step > span - acc) step = span - acc; if(step < G) step = G; d = opn2_tickEvents(I.dev, step, G); acc += step; VCHECK(++guard < 4000000, "ticking does not make progress"); } }
    void tick_to_end() { size_t guard = 0; while(!opn2_atEnd(I.dev)) { double step = d > G ? d : G; d = opn2_tickEvents(I.dev, step, G); VCHECK(++guard < 2000000, "ticking does not reach the end"); } }
};

struct ChanState { int f[21]; };
static const char *const fld[21] = {"patch", "bank_msb", "bank_lsb", "volume", "expression", "panning", "bend", "bendsense_msb", "bendsense_lsb", "sustain", "softPedal", "portamento", "portamentoEnable", "brightness", "vibrato", "aftertouch", "lastlrpn", "lastmrpn", "nrpn", "is_xg_percussion", "noteAfterTouchInUse"};
static std::vector<ChanState> chan_states(const Inst &I) {
    std::vector<ChanState> v; OPNMIDIplay *p = I.play();
    for(size_t i = 0; i < p->m_midiChannels.size(); i++) { const OPNMIDIplay::MIDIchannel &c = p->m_midiChannels[i];
        ChanState s = {{c.patch, c.bank_msb, c.bank_lsb, c.volume, c.expression, c.panning, c.bend, c.bendsense_msb, c.bendsense_lsb, c.sustain, c.softPedal, c.portamento, c.portamentoEnable, c.brightness, c.vibrato, c.aftertouch, c.lastlrpn, c.lastmrpn, c.nrpn, c.is_xg_percussion, c.noteAfterTouchInUse}}; v.push_back(s); }
    return v;
}

struct Info { bool interior = false, notes_at_seek = false, backward = false, loop = false; unsigned seeks = 0; };

static void run(const Case &c, Info &info) {
    opnmidi_verif_tap = NULL; opnmidi_verif_frames = NULL;
    std::string img = smf_write(c.song);
    TempoMap tm = tempo_map(c.song);
    // reference: every file event with its (lone-EOT adjusted) time
    struct RE { double tau; int type, sub, ch; std::vector<uint8_t> data; };
    std::vector<RE> ref; std::set<uint64_t> tickset;
    for(size_t k = 0; k < c.song.tracks.size(); k++) {
        const STrack &t = c.song.tracks[k]; size_t n = t.ev.size();
        for(size_t i = 0; i < n; i++) {
            const SEv &e = t.ev[i]; RE x; uint64_t tick = e.tick;
            if(i + 1 == n && e.status == 0xFF && e.meta == 0x2F && (n == 1 || t.ev[n - 2].tick != e.tick)) tick = n == 1 ? 0 : t.ev[n - 2].tick;
            x.tau = tm.seconds(tick); tickset.insert(tick);
            if(e.status == 0xFF) { x.type = 0xFF; x.sub = e.meta; x.ch = 0; x.data = e.data; }
            else if(e.status == 0xF0 || e.status == 0xF7) { x.type = 0xF0; x.sub = 0; x.ch = 0; x.data.push_back(e.status); x.data.insert(x.data.end(), e.data.begin(), e.data.end()); }
            else { x.type = e.status >> 4; x.sub = 0; x.ch = e.status & 15; x.data = e.data; if(x.type == 9 && e.data[1] == 0) x.type = 8; }
            ref.push_back(x);
        }
    }
    std::vector<double> times; for(uint64_t tk : tickset) times.push_back(tm.seconds(tk));
    std::sort(times.begin(), times.end()); times.erase(std::unique(times.begin(), times.end()), times.end()); // exact: a target must keep its distance from EVERY event time (fast tempos put events microseconds apart)
    Player A, B; A.start(img, c.loop); B.start(img, c.loop);
    // with looping on, targets stay before the loop end (explicit marker, or the end of the song)
    double loop_end = c.loop ? opn2_loopEndTime(A.I.dev) : -1.0;
    double len = opn2_totalTimeLength(A.I.dev);
    double t0 = len * c.play_first_permille / 1000.0;
    if(c.loop) { double lim = (loop_end >= 0 ? loop_end : (times.empty() ? 0.0 : times.back())) * 0.95; if(t0 > lim) t0 = lim; } // a looping song wraps before it reaches its length
    A.tick_to(t0); B.tick_to(t0);
    double cur = t0;
    for(size_t si = 0; si < c.targets.size(); si++) {
        int sel = c.targets[si];
        if(sel == -1) { // negative targets are ignored: nothing may change
            std::vector<ChanState> before = chan_states(A.I); double tb = opn2_positionTell(A.I.dev); size_t nb = 0; for(auto &ch : A.I.play()->m_midiChannels) nb += ch.activenotes.size();
            opn2_positionSeek(A.I.dev, -1.0 - (double)si);
            std::vector<ChanState> after = chan_states(A.I); size_t na = 0; for(auto &ch : A.I.play()->m_midiChannels) na += ch.activenotes.size();
            VCHECK(opn2_positionTell(A.I.dev) == tb, "a negative seek target moved the position %.6f -> %.6f", tb, opn2_positionTell(A.I.dev));
            VCHECK(na == nb, "a negative seek target changed the sounding notes (%zu -> %zu)", nb, na);
            for(size_t i = 0; i < before.size(); i++) for(int k = 0; k < 21; k++) VCHECK(before[i].f[k] == after[i].f[k], "a negative seek target changed channel %zu %s", i, fld[k]);
            continue;
        }
        if(sel == -2) { // beyond the end: rewinds to the start
            opn2_positionSeek(A.I.dev, len + 1.0 + (double)si);
            VCHECK(opn2_positionTell(A.I.dev) == 0.0, "seeking beyond the end left the position at %.6f instead of 0", opn2_positionTell(A.I.dev));
            VCHECK(!opn2_atEnd(A.I.dev), "seeking beyond the end left the song ended");
            if(c.loop) B.start(img, c.loop); else opn2_positionRewind(B.I.dev);
            A.d = 0; B.d = 0; cur = -1; info.seeks++; // back at the start: every event of the file is delivered again
            continue;
        }
        if(times.size() < 2) continue;
        size_t mi = (size_t)sel % (times.size() - 1);
        double t = (times[mi] + times[mi + 1]) / 2;
        const double margin = 1.0 / 8000.0; // the seek works with sample-period granularity: an event within half a period of the target counts as 'at' it
        if(!(t > times[mi] + margin && t < times[mi + 1] - margin)) continue; // too close to an event time to be 'between event times'
        if(c.loop && loop_end >= 0 && t >= loop_end - margin) continue;          // outside the quantifier: target not before the loop end
        size_t sounding = 0; for(auto &ch : A.I.play()->m_midiChannels) sounding += ch.activenotes.size();
        if(sounding) info.notes_at_seek = true;
        if(t < cur) info.backward = true;
        if(mi > 0 && mi + 2 < times.size()) info.interior = true;
        opn2_positionSeek(A.I.dev, t); A.d = 0;
        // the reference is a fresh instance played linearly to t (every second time: the same instance rewound, which must be equivalent)
        if(c.loop || (si & 1) == 0) { B.start(img, c.loop); B.d = 0; B.tick_to(t); }
        else { opn2_positionRewind(B.I.dev); B.d = 0; B.tick_to(t); }
        info.seeks++; cur = t;
        double tellA = opn2_positionTell(A.I.dev);
        VCHECK(std::fabs(tellA - t) <= 1e-9 * (1 + t), "after seeking to %.9f the reported position is %.9f", t, tellA);
        VCHECK(std::fabs(opn2_positionTell(B.I.dev) - t) <= 1e-9 * (1 + t), "twin did not reach the target by linear play (%.9f vs %.9f)", opn2_positionTell(B.I.dev), t);
        // no note is sounding (a percussion note whose release is pending under the 30 ms rule may linger)
        OPNMIDIplay *pa = A.I.play();
        for(size_t m = 0; m < pa->m_midiChannels.size(); m++) for(OPNMIDIplay::MIDIchannel::notes_iterator i = pa->m_midiChannels[m].activenotes.begin(); !i.is_end(); ++i) {
            const OPNMIDIplay::MIDIchannel::NoteInfo &n = i->value; bool blank = *(const unsigned char *)&n.isBlank != 0;
            if(blank) continue;
            bool deferred = *(const unsigned char *)&n.isOnExtendedLifeTime != 0 && n.ttl > 0;
            VCHECK(deferred, "after seeking to %.6f a note is still sounding on MIDI channel %zu key %d", t, m, n.note);
        }
        // controller state equals linear playback to t
        std::vector<ChanState> sa = chan_states(A.I), sb = chan_states(B.I);
        // a device-name meta that playback passed BEFORE the seek has left 16 more channels behind which a linear playback to an earlier target has not created yet:
        // such channels must be in the state a newly created channel has
        if(sa.size() != sb.size()) {
            OPNMIDIplay::MIDIchannel fresh; ChanState dflt = {{fresh.patch, fresh.bank_msb, fresh.bank_lsb, fresh.volume, fresh.expression, fresh.panning, fresh.bend, fresh.bendsense_msb, fresh.bendsense_lsb, fresh.sustain, fresh.softPedal, fresh.portamento, fresh.portamentoEnable, fresh.brightness, fresh.vibrato, fresh.aftertouch, fresh.lastlrpn, fresh.lastmrpn, fresh.nrpn, fresh.is_xg_percussion, fresh.noteAfterTouchInUse}};
            VCHECK(sa.size() > sb.size() && sa.size() % 16 == 0, "after seeking to %.6f there are %zu MIDI channels, linear playback to the same time has %zu", t, sa.size(), sb.size());
            for(size_t i = sb.size(); i < sa.size(); i++) for(int k = 0; k < 21; k++) VCHECK(sa[i].f[k] == dflt.f[k], "after seeking to %.6f: channel %zu (of a port that linear playback has not reached yet) has %s = %d, a new channel has %d", t, i, fld[k], sa[i].f[k], dflt.f[k]);
            sa.resize(sb.size());
        }
        for(size_t i = 0; i < sa.size(); i++) for(int k = 0; k < 21; k++) VCHECK(sa[i].f[k] == sb[i].f[k], "after seeking to %.6f: channel %zu %s is %d, linear playback to the same time gives %d", t, i, fld[k], sa[i].f[k], sb[i].f[k]);
        VCHECK(A.I.play()->m_synthMode == B.I.play()->m_synthMode && A.I.play()->m_synth->m_masterVolume == B.I.play()->m_synth->m_masterVolume, "after seeking to %.6f: synth mode / master volume differ from linear playback", t);
    }
    // the events delivered afterwards: identical to the twin's and at the reference interpreter's song times
    A.rec.got.clear(); B.rec.got.clear(); A.rec.on = true; B.rec.on = true;
    if(c.loop) {
        // play on to the loop end and through two more rounds of the loop body (bounded: a short body inside a long song would otherwise repeat for ever)
        double ls = opn2_loopStartTime(A.I.dev), le = opn2_loopEndTime(A.I.dev); if(le < 0) { ls = 0; le = times.empty() ? 0.0 : times.back(); } if(ls < 0) ls = 0;
        double here = cur < 0 ? 0.0 : cur; double span = (le > here ? le - here : 0.0) + 2.2 * (le > ls ? le - ls : 0.0) + 0.01;
        A.tick_for(span); B.tick_for(span);
    } else { A.tick_to_end(); B.tick_to_end(); }
    if(A.rec.got.size() != B.rec.got.size()) {
        std::string la, lb; for(size_t i = 0; i < A.rec.got.size() && i < 14; i++) la += fmt(" %02X/%02X@%.6f", A.rec.got[i].type, A.rec.got[i].sub, A.rec.got[i].tell); for(size_t i = 0; i < B.rec.got.size() && i < 14; i++) lb += fmt(" %02X/%02X@%.6f", B.rec.got[i].type, B.rec.got[i].sub, B.rec.got[i].tell);
        VCHECK(false, "after the last seek (position %.6f) %zu events were delivered, linear playback delivers %zu; seek:%s | linear:%s", cur, A.rec.got.size(), B.rec.got.size(), la.c_str(), lb.c_str());
    }
    for(size_t i = 0; i < A.rec.got.size(); i++) {
        const Ev &x = A.rec.got[i], &y = B.rec.got[i];
        VCHECK(x.type == y.type && x.sub == y.sub && x.ch == y.ch && x.data == y.data, "event #%zu after the seek differs: %s vs linear %s", i, show(x).c_str(), show(y).c_str());
        VCHECK(std::fabs(x.tell - y.tell) <= (c.loop ? 2 * G : 0.0) + 1e-7 * (1 + y.tell), "event #%zu after the seek is delivered at song time %.9f, linear playback at %.9f", i, x.tell, y.tell); // after a loop wrap the reported time depends on the tick phase, up to the granularity
    }
    if(info.seeks > 0 && !c.loop) {
        // reference: exactly the file events with time > cur, each at its own time
        std::vector<RE> exp; for(const RE &r : ref) if(r.tau > cur) exp.push_back(r);
        std::vector<Ev> got; for(const Ev &e : A.rec.got) if(!(e.type == 0xFF && e.sub == 0x01 && e.data.empty())) got.push_back(e); // minus the synthetic song-begin callback
        VCHECK(got.size() == exp.size(), "after seeking to %.6f %zu events were delivered, the file has %zu events later than that", cur, got.size(), exp.size());
        // identical events (e.g. End-of-Track of several tracks) are matched in time order
        std::map<std::string, std::vector<double>> et, gt;
        for(const RE &r : exp) et[fmt("%02X/%02X/%d/", r.type, r.sub, r.ch) + hex(r.data.data(), r.data.size())].push_back(r.tau);
        for(const Ev &e : got) gt[fmt("%02X/%02X/%d/", e.type, e.sub, e.ch) + hex(e.data.data(), e.data.size())].push_back(e.tell);
        for(auto &kv : gt) {
            std::vector<double> &g2 = kv.second; std::vector<double> &e2 = et[kv.first];
            VCHECK(g2.size() == e2.size(), "after seeking to %.6f event %s was delivered %zu time(s), the file has it %zu time(s) later than the target", cur, kv.first.c_str(), g2.size(), e2.size());
            std::sort(g2.begin(), g2.end()); std::sort(e2.begin(), e2.end());
            for(size_t i = 0; i < g2.size(); i++) VCHECK(std::fabs(g2[i] - e2[i]) <= G + 1e-7 * (1 + e2[i]), "after seeking to %.6f event %s was delivered at song time %.9f, its time in the file is %.9f", cur, kv.first.c_str(), g2[i], e2[i]);
        }
    }
}

void showValue(const Case &c, std::ostream &os) { os << ser(c); }

int main(int argc, char **argv) {
    parse_args(argc, argv);
    Ctx &c = ctx();
    if(!c.kv.count("budget")) c.cpu_budget_s = 120; else c.cpu_budget_s = c.opt("budget", 120);
    if(c.mode == "replay") return replay_main([](const std::string &s) { Info info; run(deser(s), info); });
    pbt("c08_seek_vs_linear", c.n, 35, []() {
        Case cs; cs.song = *genSong(false, true);
        // keep songs short in time so linear re-play of the twin stays cheap: no giant deltas
        for(STrack &t : cs.song.tracks) for(SEv &e : t.ev) if(e.delta > 30000) e.delta = 1 + e.delta % 3000;
        smf_ticks(cs.song);
        cs.loop = *rc::gen::element(0, 0, 1);
        if(cs.loop && *rng<int>(0, 1)) { // explicit loop markers in track 0 (valid only when the start tick is before the end tick)
            STrack &t0 = cs.song.tracks[0]; size_t n = t0.ev.size();
            if(n >= 3) { size_t i1 = (size_t)*rng<int>(0, (int)n - 2), i2 = (size_t)*rng<int>((int)i1 + 1, (int)n - 1);
                auto marker = [](const char *x) { SEv e; e.status = 0xFF; e.meta = 0x06; e.delta = 0; e.data.assign(x, x + strlen(x)); return e; };
                t0.ev.insert(t0.ev.begin() + (long)i2, marker("loopEnd")); t0.ev.insert(t0.ev.begin() + (long)i1, marker("loopStart")); smf_ticks(cs.song); } }
        cs.play_first_permille = *rc::gen::element(0, 0, 300, 600, 950, 1000);
        cs.targets = *rc::gen::resize(4, rc::gen::container<std::vector<int>>(rc::gen::weightedOneOf<int>({{10, rng<int>(0, 400)}, {1, rc::gen::just(-1)}, {1, rc::gen::just(-2)}})));
        if(cs.targets.empty()) cs.targets.push_back(*rng<int>(0, 400));
        std::string s = ser(cs);
        run_case(s, [&] {
            Info info; run(cs, info);
            Stats &st = ctx().stats;
            st.note_case(s, info.interior && info.notes_at_seek);
            st.label("seeks_judged", info.seeks); if(info.backward) st.label("backward_seek"); if(info.notes_at_seek) st.label("notes_sounding_at_seek"); if(info.interior) st.label("target_inside_song"); if(cs.loop) st.label("looping_on");
        });
    });
    return finish();
}
