// C12: bank select + program change pick the documented instrument, with fallbacks.
// Engine: rapidcheck (bank layouts x bank-select/program/mode histories); oracle = independent resolver written from the
// property text; the instrument that reaches the chip is identified by a serial number encoded in its operator bytes.
#include "common/ops.hpp"
#include "common/rc_util.hpp"
#include <map>
#include <set>
#include <array>

using namespace vf;

struct BankDef { int perc = 0, msb = 0, lsb = 0; unsigned blankmask_seed = 0; };
enum HK { H_MODE, H_DRUMPART, H_CC0, H_CC32, H_MSB, H_LSB, H_BANK16, H_PROG, H_NOTE, H_SETINS, H_NK };
static const char *const hname[H_NK] = {"mode", "drumpart", "cc0", "cc32", "bankmsb", "banklsb", "bank16", "prog", "note", "setins"};
struct HOp { int kind = 0, a = 0, b = 0, c = 0; };
struct Case { int via_file = 0; std::vector<BankDef> banks; std::vector<HOp> ops; };

static std::string ser(const Case &c) {
    std::ostringstream o; o << "layout " << c.via_file << " " << c.banks.size() << "\n";
    for(const BankDef &b : c.banks) o << "bank " << b.perc << " " << b.msb << " " << b.lsb << " " << b.blankmask_seed << "\n";
    for(const HOp &h : c.ops) o << hname[h.kind] << " " << h.a << " " << h.b << " " << h.c << "\n";
    return o.str();
}
static Case deser(const std::string &s) {
    Case c; std::istringstream in(s); std::string w; size_t nb = 0;
    in >> w >> c.via_file >> nb;
    while(in >> w) {
        if(w == "bank") { BankDef b; in >> b.perc >> b.msb >> b.lsb >> b.blankmask_seed; c.banks.push_back(b); }
        else { HOp h; h.kind = -1; for(int i = 0; i < H_NK; i++) if(w == hname[i]) h.kind = i; in >> h.a >> h.b >> h.c; if(h.kind >= 0) c.ops.push_back(h); }
    }
    return c;
}

// ---------------------------------------------------------------- layout: key -> 128 serial numbers (-1 = blank)
typedef std::array<int, 128> Slots;
typedef std::map<unsigned, Slots> Layout;
static unsigned bkey(int perc, int msb, int lsb) { return (unsigned)((perc << 16) | (msb << 8) | lsb); }
static bool is_blank(unsigned seed, int idx) { unsigned s = seed * 2654435761u + (unsigned)idx * 40503u; s ^= s >> 13; s *= 2246822519u; s ^= s >> 16; return (s % 10) < 4; } // p = 0.4
static int g_serial = 0;
static OPN2_Instrument ins_with_serial(int serial, int drumkey) {
    OPN2_Instrument in = make_ins(0, 0, 0, (uint8_t)drumkey, 1000, 10);
    in.operators[0].decay2_70 = (uint8_t)(serial & 0x1F); in.operators[1].decay2_70 = (uint8_t)((serial >> 5) & 0x1F);
    in.operators[2].decay2_70 = (uint8_t)((serial >> 10) & 0x1F); in.operators[3].decay2_70 = (uint8_t)(0x10 | ((serial >> 15) & 0x0F));
    return in;
}
static int drumkey_of(int serial) { return 30 + serial % 60; }

// ---------------------------------------------------------------- resolver (from the property statement)
enum Mode { M_GM, M_GS, M_XG };
struct ChanSel { int msb = 0, lsb = 0, prog = 0; bool drum_part = false; int msb_mode = M_XG; bool touched_outside_gs = false; };
struct Resolver {
    Mode mode = M_XG; ChanSel ch[16];
    // 1 yes, 0 no, -1 open
    int percussion(int c) const {
        if(c % 16 == 9) return 1;
        const ChanSel &s = ch[c];
        if(s.touched_outside_gs) return -1;                  // a GS drum-part message arrived while not in GS mode: effect not defined by the statement
        if(mode == M_GS) return s.drum_part ? 1 : 0;
        if(s.drum_part) return -1;                          // drum part left over from GS mode / assigned outside GS mode
        bool xgp = s.msb == 126 || s.msb == 127;
        if(mode == M_GM) return xgp ? -1 : 0;               // the statement names XG only
        if(s.msb_mode != M_XG) return xgp ? -1 : 0;         // bank MSB selected before XG mode was entered
        return xgp ? 1 : 0;
    }
    static int lookup(const Layout &L, int perc, int msb, int lsb, int idx) { auto it = L.find(bkey(perc, msb, lsb)); return it == L.end() ? -1 : it->second[(size_t)idx]; }
    // possible outcomes (serial, or -1 = silent/rejected). More than one element only where the statement leaves the chain open.
    std::set<int> resolve(const Layout &L, int c, int key, bool perc) const {
        const ChanSel &s = ch[c]; std::set<int> out;
        if(!perc) {
            int lsb = (mode == M_GS) ? 0 : s.lsb;
            int r = lookup(L, 0, s.msb, lsb, s.prog);
            if(r < 0) r = lookup(L, 0, s.msb, 0, s.prog);
            if(r < 0) r = lookup(L, 0, 0, 0, s.prog);
            out.insert(r);
        } else {
            int kit = s.prog + ((mode == M_XG && s.msb == 126) ? 128 : 0);
            int r = lookup(L, 1, 0, kit, key);
            if(r >= 0) { out.insert(r); return out; }
            // 'bank with LSB cleared' for a kit number: the kit with the low seven bits cleared - drum kit 0 for the drum kits, and for an
            // SFX kit (which IS percussion bank 128 + program, the statement's 'offset by 128') SFX kit 0 = bank 128; then bank 0
            int a = lookup(L, 1, 0, kit & ~0x7F, key); if(a < 0) a = lookup(L, 1, 0, 0, key);
            out.insert(a);
        }
        return out;
    }
    void reset_controllers_on_mode(Mode m) { mode = m; if(m == M_GS) for(auto &s : ch) { s.drum_part = false; s.touched_outside_gs = false; } }
    void bank_select_seen(int c) { if(mode != M_GS) { ch[c].touched_outside_gs = false; ch[c].drum_part = false; } } // outside GS the flag is recomputed from the MSB
};

struct Info { unsigned notes = 0, fallback = 0, perc_rule = 0, open = 0, rejected = 0, gs_lsb = 0, xg_sfx = 0; };

// The serial is read from the four decay-2 registers of the chip channel as the chip holds them NOW (last value written, whenever that
// was): an implementation may skip reloading a patch the channel already has.
static std::map<unsigned, int> g_shadow; static size_t g_shadow_pos = 0;
static void shadow_reset() { g_shadow.clear(); g_shadow_pos = 0; }
static void shadow_absorb() {
    TapState &t = tap(); if(g_shadow_pos > t.log.size()) g_shadow_pos = 0;
    for(; g_shadow_pos < t.log.size(); g_shadow_pos++) { const TapRec &w = t.log[g_shadow_pos]; if(w.kind != 2 && w.reg >= 0x70 && w.reg <= 0x7F) g_shadow[((unsigned)w.chip << 16) | ((unsigned)w.port << 8) | w.reg] = (int)w.val; }
}
static int decode_serial(size_t, size_t c) {
    unsigned port = (unsigned)((c % 6) / 3), cc = (unsigned)(c % 3), chip = (unsigned)(c / 6);
    shadow_absorb();
    int v[4];
    for(int k = 0; k < 4; k++) { auto it = g_shadow.find((chip << 16) | (port << 8) | (0x70 + 4 * (unsigned)k + cc)); if(it == g_shadow.end()) return -2; v[k] = it->second; }
    return (v[0] & 0x1F) | ((v[1] & 0x1F) << 5) | ((v[2] & 0x1F) << 10) | ((v[3] & 0x0F) << 15);
}

static void run(const Case &c, Info &info) {
    shadow_reset();
    g_serial = 0;
    Layout L; std::map<int, int> serial_drumkey;
    World W; W.start(8000, EMU_NP2, 1);
    OPN2_MIDIPlayer *d = W.I.dev;
    // remove the default banks, then install the generated layout
    { OPN2_Bank b; while(opn2_getFirstBank(d, &b) == 0) opn2_removeBank(d, &b); }
    bool need_file = c.via_file != 0;
    for(const BankDef &b : c.banks) if(b.lsb > 127 || b.msb > 127) need_file = true;
    WFile wf; wf.version = 2;
    for(const BankDef &b : c.banks) {
        Slots sl; WBank wb; wb.msb = (uint8_t)b.msb; wb.lsb = (uint8_t)b.lsb;
        for(int i = 0; i < 128; i++) {
            if(is_blank(b.blankmask_seed, i)) { sl[(size_t)i] = -1; WIns z; wb.ins.push_back(z); continue; }
            int serial = ++g_serial; sl[(size_t)i] = serial;
            OPN2_Instrument in = ins_with_serial(serial, b.perc ? drumkey_of(serial) : 0);
            WIns w; w.perc_key = in.percussion_key_number; w.fbalg = in.fbalg; w.delay_on = 1000; w.delay_off = 10;
            for(int o = 0; o < 4; o++) { w.ops[o][0] = in.operators[o].dtfm_30; w.ops[o][1] = in.operators[o].level_40; w.ops[o][2] = in.operators[o].rsatk_50; w.ops[o][3] = in.operators[o].amdecay1_60; w.ops[o][4] = in.operators[o].decay2_70; w.ops[o][5] = in.operators[o].susrel_80; w.ops[o][6] = in.operators[o].ssgeg_90; }
            wb.ins.push_back(w);
        }
        L[bkey(b.perc, b.msb, b.lsb)] = sl; // a later bank with the same id replaces the earlier one (both paths)
        (b.perc ? wf.perc : wf.mel).push_back(wb);
    }
    if(need_file) {
        // the loader substitutes one blank bank 0:0 for an empty group; reorder semantic: melodic first then percussion, later duplicates win (same as the map above per kind)
        std::string img = wopn_write(wf);
        VCHECK(opn2_openBankData(d, img.data(), (long)img.size()) == 0, "generated bank rejected: %s", opn2_errorInfo(d));
        // duplicates: file order within a kind is generation order, so 'last wins' already matches L
    } else {
        for(const BankDef &b : c.banks) {
            OPN2_Bank h; VCHECK(api_get_bank(d, b.perc, b.msb, b.lsb, &h), "bank create failed");
            const Slots &sl = L[bkey(b.perc, b.msb, b.lsb)];
            // a duplicate id: this is the same bank object; rewrite all 128 entries from the final layout
            for(unsigned i = 0; i < 128; i++) { OPN2_Instrument in = sl[i] < 0 ? blank_ins() : ins_with_serial(sl[i], b.perc ? drumkey_of(sl[i]) : 0); VCHECK(opn2_setInstrument(d, &h, i, &in) == 0, "setInstrument failed"); }
        }
    }
    // with duplicates in the file path, the serials of overwritten banks are unreachable; L holds the last definition - but serial numbering differs
    // between the two passes only if duplicates exist; recompute L's serials for the file path is unnecessary because L was filled in the same order.
    Resolver R;
    W.drain_tap();
    for(size_t i = 0; i < c.ops.size(); i++) {
        const HOp &h = c.ops[i];
        switch(h.kind) {
        case H_MODE: { std::vector<uint8_t> m = canned_sysex(h.a == 0 ? 0 : (h.a == 1 ? 2 : 3)); VCHECK(opn2_rt_systemExclusive(d, m.data(), m.size()) == 1, "mode SysEx rejected"); R.reset_controllers_on_mode(h.a == 0 ? M_GM : (h.a == 1 ? M_GS : M_XG)); for(auto &sx : R.ch) sx.msb_mode = -1; break; }
        case H_DRUMPART: {
            static const int dm[16] = {9, 0, 1, 2, 3, 4, 5, 6, 7, 8, 10, 11, 12, 13, 14, 15};
            uint8_t a2 = (uint8_t)(0x10 | (h.a & 15)), dt = (uint8_t)(h.b % 3);
            uint8_t ck = (uint8_t)((128 - ((0x40 + a2 + 0x15 + dt) % 128)) % 128);
            uint8_t m[11] = {0xF0, 0x41, 0x10, 0x42, 0x12, 0x40, a2, 0x15, dt, ck, 0xF7};
            VCHECK(opn2_rt_systemExclusive(d, m, 11) == 1, "drum-part SysEx rejected");
            R.ch[dm[h.a & 15]].drum_part = (dt == 1 || dt == 2); if(R.mode != M_GS) R.ch[dm[h.a & 15]].touched_outside_gs = true;
            break;
        }
        case H_CC0: opn2_rt_controllerChange(d, (OPN2_UInt8)h.a, 0, (OPN2_UInt8)h.b); R.ch[h.a].msb = h.b; R.ch[h.a].msb_mode = R.mode; R.bank_select_seen(h.a); break;
        case H_CC32: opn2_rt_controllerChange(d, (OPN2_UInt8)h.a, 32, (OPN2_UInt8)h.b); R.ch[h.a].lsb = h.b; R.bank_select_seen(h.a); break;
        case H_MSB: opn2_rt_bankChangeMSB(d, (OPN2_UInt8)h.a, (OPN2_UInt8)h.b); R.ch[h.a].msb = h.b; R.ch[h.a].msb_mode = R.mode; R.bank_select_seen(h.a); break;
        case H_LSB: opn2_rt_bankChangeLSB(d, (OPN2_UInt8)h.a, (OPN2_UInt8)h.b); R.ch[h.a].lsb = h.b; R.bank_select_seen(h.a); break;
        case H_BANK16: opn2_rt_bankChange(d, (OPN2_UInt8)h.a, (OPN2_SInt16)((h.b << 8) | h.c)); R.ch[h.a].msb = h.b; R.ch[h.a].lsb = h.c; R.ch[h.a].msb_mode = R.mode; R.bank_select_seen(h.a); break;
        case H_PROG: opn2_rt_patchChange(d, (OPN2_UInt8)h.a, (OPN2_UInt8)h.b); R.ch[h.a].prog = h.b; break;
        case H_SETINS: { // replace one entry of an existing bank through the bank API (only ids the API can address)
            if(c.banks.empty()) break;
            const BankDef &b = c.banks[(size_t)h.a % c.banks.size()];
            if(b.lsb > 127 || b.msb > 127) break;
            OPN2_Bank hb; if(!api_get_bank(d, b.perc, b.msb, b.lsb, &hb, 0)) break;
            int idx = h.b & 127; int serial = (h.c & 1) ? -1 : ++g_serial;
            OPN2_Instrument in = serial < 0 ? blank_ins() : ins_with_serial(serial, b.perc ? drumkey_of(serial) : 0);
            VCHECK(opn2_setInstrument(d, &hb, (unsigned)idx, &in) == 0, "setInstrument failed");
            L[bkey(b.perc, b.msb, b.lsb)][(size_t)idx] = serial;
            break;
        }
        case H_NOTE: {
            int ch = h.a, key = h.b;
            int pc = R.percussion(ch);
            size_t from = tap().log.size();
            int r = opn2_rt_noteOn(d, (OPN2_UInt8)ch, (OPN2_UInt8)key, 100);
            W.drain_tap();
            info.notes++;
            if(pc < 0) { info.open++; }
            else {
                std::set<int> exp = R.resolve(L, ch, key, pc == 1);
                std::string cx = fmt("step %zu: note ch %d key %d (mode %d msb %d lsb %d prog %d %s)", i + 1, ch, key, (int)R.mode, R.ch[ch].msb, R.ch[ch].lsb, R.ch[ch].prog, pc ? "percussion" : "melodic");
                std::vector<size_t> kc;
                for(size_t k = from; k < tap().log.size(); k++) { const TapRec &w = tap().log[k]; if(w.kind != 2 && w.reg == 0x28 && w.port == 0 && (w.val & 0xF0)) { int cc = chan_from_code(w.val); if(cc >= 0) kc.push_back((size_t)w.chip * 6 + (size_t)cc); } }
                if(r == 0) {
                    VCHECK(exp.count(-1), "%s: rejected, but the chain ends at a sounding instrument (serial %d)", cx.c_str(), *exp.rbegin());
                    bool opw = false; for(size_t k = from; k < tap().log.size(); k++) if(tap().log[k].kind != 2 && tap().log[k].reg >= 0x30 && tap().log[k].reg <= 0x9F) opw = true;
                    VCHECK(!opw, "%s: rejected note still wrote operator registers", cx.c_str());
                    info.rejected++;
                } else {
                    VCHECK(!kc.empty(), "%s: accepted but no key-on was written", cx.c_str());
                    int got = decode_serial(from, kc.back());
                    VCHECK(got != -2, "%s: accepted but no instrument was loaded into the chip", cx.c_str());
                    VCHECK(exp.count(got), "%s: instrument serial %d reached the chip, the documented chain gives %d%s", cx.c_str(), got, *exp.begin(), exp.size() > 1 ? " (or one more)" : "");
                    if(pc == 1) {
                        // the drum key fixes the pitch: decode the frequency and compare with the instrument's drum key
                        unsigned c2 = (unsigned)kc.back(), port = (c2 % 6) / 3, cc = c2 % 3; int hi = -1, lo = -1;
                        for(size_t k = from; k < tap().log.size(); k++) { const TapRec &w = tap().log[k]; if(w.kind == 2 || w.port != port) continue; if(w.reg == 0xA4 + cc) hi = (int)w.val; else if(w.reg == 0xA0 + cc) lo = (int)w.val; }
                        if(hi >= 0 && lo >= 0) {
                            int block = (hi >> 3) & 7, fnum = ((hi & 7) << 8) | lo; double step = std::ldexp((opn2_getChipType(d) == 1 ? 7987200.0 : 7670454.0) / (144.0 * 1048576.0), block - 1), hz = fnum * step;
                            double want = 440.0 * std::pow(2.0, (drumkey_of(got) - 69.0) / 12.0);
                            VCHECK(std::fabs(hz - want) <= step, "%s: percussion pitch %.2f Hz, drum key %d means %.2f Hz", cx.c_str(), hz, drumkey_of(got), want);
                        }
                    }
                }
                // non-triviality bookkeeping
                if(pc == 1 && ch != 9) info.perc_rule++;
                if(pc == 1 && R.mode == M_XG && R.ch[ch].msb == 126) info.xg_sfx++;
                if(pc == 0 && R.mode == M_GS && R.ch[ch].lsb != 0) info.gs_lsb++;
                if(pc == 0) { int first = Resolver::lookup(L, 0, R.ch[ch].msb, R.mode == M_GS ? 0 : R.ch[ch].lsb, R.ch[ch].prog); if(first < 0 && (R.ch[ch].msb || R.ch[ch].lsb)) info.fallback++; }
                else { int kit = R.ch[ch].prog + ((R.mode == M_XG && R.ch[ch].msb == 126) ? 128 : 0); if(Resolver::lookup(L, 1, 0, kit, key) < 0 && kit) info.fallback++; }
            }
            opn2_rt_noteOff(d, (OPN2_UInt8)ch, (OPN2_UInt8)key);
            W.advance_ms(40); W.drain_tap();
            break;
        }
        }
    }
}

static rc::Gen<BankDef> genBank() {
    using namespace rc;
    return gen::map(gen::tuple(rng<int>(0, 9), rng<int>(0, 7), rng<int>(0, 6), rng<int>(1, 1 << 20)), [](std::tuple<int, int, int, int> t) {
        static const int mel[8][2] = {{0, 0}, {0, 1}, {1, 0}, {1, 1}, {8, 0}, {126, 0}, {127, 0}, {64, 3}};
        static const int kits[7] = {0, 1, 8, 127, 128, 129, 255};
        BankDef b; b.blankmask_seed = (unsigned)std::get<3>(t);
        if(std::get<0>(t) < 5) { b.perc = 0; b.msb = mel[std::get<1>(t)][0]; b.lsb = mel[std::get<1>(t)][1]; }
        else { b.perc = 1; b.msb = 0; b.lsb = kits[std::get<2>(t)]; }
        return b;
    });
}
static rc::Gen<HOp> genHOp() {
    using namespace rc;
    auto kind = gen::weightedElement<int>({{3, H_MODE}, {2, H_DRUMPART}, {8, H_CC0}, {5, H_CC32}, {2, H_MSB}, {2, H_LSB}, {2, H_BANK16}, {8, H_PROG}, {20, H_NOTE}, {2, H_SETINS}});
    return gen::map(gen::tuple(kind, rng<int>(0, 1000), rng<int>(0, 1000), rng<int>(0, 1000)), [](std::tuple<int, int, int, int> t) {
        int k = std::get<0>(t), a = std::get<1>(t), b = std::get<2>(t), c = std::get<3>(t);
        static const int chs[] = {0, 3, 9, 9, 10, 0}; static const int msbs[] = {0, 1, 8, 64, 126, 127, 0, 2}; static const int lsbs[] = {0, 1, 3, 0, 2};
        static const int progs[] = {0, 1, 2, 5, 8, 127, 0, 1}; static const int keys[] = {35, 36, 40, 60, 127, 0, 5, 36};
        HOp h; h.kind = k; int ch = chs[a % 6];
        switch(k) {
        case H_MODE: h.a = a % 3; break;
        case H_DRUMPART: { static const int parts[] = {1, 4, 0, 11, 1}; h.a = parts[a % 5]; h.b = b % 3; break; }
        case H_CC0: case H_MSB: h.a = ch; h.b = msbs[b % 8]; break;
        case H_CC32: case H_LSB: h.a = ch; h.b = lsbs[b % 5]; break;
        case H_BANK16: h.a = ch; h.b = msbs[b % 8]; h.c = lsbs[c % 5]; break;
        case H_PROG: h.a = ch; h.b = progs[b % 8]; break;
        case H_NOTE: h.a = ch; h.b = keys[b % 8]; break;
        case H_SETINS: h.a = a; h.b = (b & 1) ? progs[c % 8] : keys[c % 8]; h.c = c / 8; break;
        }
        return h;
    });
}
void showValue(const Case &c, std::ostream &os) { os << ser(c); }

int main(int argc, char **argv) {
    parse_args(argc, argv);
    Ctx &c = ctx();
    if(c.mode == "replay") return replay_main([](const std::string &s) { Info info; run(deser(s), info); });
    pbt("c12_bank_select_resolver", c.n, 70, []() {
        Case cs; cs.via_file = *rng<int>(0, 1);
        cs.banks = *rc::gen::resize(8, rc::gen::container<std::vector<BankDef>>(genBank()));
        // duplicate ids would make the serial bookkeeping differ between the two load paths: keep the first definition of each id
        { std::set<unsigned> seen; std::vector<BankDef> u; for(const BankDef &b : cs.banks) if(seen.insert(bkey(b.perc, b.msb, b.lsb)).second) u.push_back(b); cs.banks = u; }
        if(cs.banks.empty()) { BankDef b; b.blankmask_seed = 7; cs.banks.push_back(b); }
        cs.ops = *rc::gen::container<std::vector<HOp>>(genHOp());
        std::string s = ser(cs);
        run_case(s, [&] {
            Info info; run(cs, info);
            Stats &st = ctx().stats;
            st.note_case(s, info.fallback > 0 || info.perc_rule > 0 || info.xg_sfx > 0 || info.gs_lsb > 0);
            st.label("notes_judged", info.notes - info.open); st.label("notes_excluded_open_percussion_state", info.open); st.label("fallback_step_needed", info.fallback);
            st.label("percussion_by_rule(non-ch10)", info.perc_rule); st.label("xg_sfx_kit(+128)", info.xg_sfx); st.label("gs_lsb_ignored", info.gs_lsb); st.label("rejected_all_blank", info.rejected);
            st.label(cs.via_file ? "layout_via_bank_file" : "layout_via_bank_api");
        });
    });
    return finish();
}
