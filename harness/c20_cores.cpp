// C20: every emulator core sounds the programmed pitch and goes silent on release.
// Engine: rapidcheck over the configuration space (core x family x rate x PCM-rate mode x chips x key x scenario x release kind),
// oracle = signal analysis of the rendered S16 PCM (idle level, onset, zero-crossing frequency, windowed RMS, Goertzel for
// chords, residual after release / panic / reset).
#include "common/inst.hpp"
#include "common/rc_util.hpp"
#include "common/ops.hpp"
#include <cmath>
#include <algorithm>

using namespace vf;

enum { SC_SINGLE = 0, SC_CHORD = 1, SC_BURST = 2 };
enum { REL_NOTEOFF = 0, REL_PANIC = 1, REL_RESET = 2 };
static const char *const kScen[] = {"single", "chord", "burst"};
static const char *const kRel[] = {"noteoff", "panic", "reset"};

struct Case {
    int emu = EMU_NP2, family = -1, rate = 44100, pcmrate = 0, chips = 1, key = 69, scen = SC_SINGLE, rel = REL_NOTEOFF, chunk = 512;
    std::vector<int> chord;   // extra keys for SC_CHORD
    std::vector<Op> burst;    // events for SC_BURST (channels 0..3)
};
static std::string ser(const Case &c) {
    std::ostringstream o;
    o << "c20 " << c.emu << " " << c.family << " " << c.rate << " " << c.pcmrate << " " << c.chips << " " << c.key << " " << c.scen << " " << c.rel << " " << c.chunk << " " << c.chord.size();
    for(int k : c.chord) o << " " << k;
    o << "\n" << ser_ops(c.burst) << "end\n";
    return o.str();
}
static Case deser(const std::string &s) {
    Case c; std::istringstream in(s); std::string w; size_t n = 0;
    in >> w >> c.emu >> c.family >> c.rate >> c.pcmrate >> c.chips >> c.key >> c.scen >> c.rel >> c.chunk >> n;
    for(size_t i = 0; i < n; i++) { int k; in >> k; c.chord.push_back(k); }
    c.burst = deser_ops(in);
    return c;
}
static std::string brief(const Case &c) {
    return fmt("%s family=%d rate=%d pcm_rate_mode=%d chips=%d key=%d %s release=%s chunk=%d", kEmuName[c.emu], c.family, c.rate, c.pcmrate, c.chips, c.key, kScen[c.scen], kRel[c.rel], c.chunk);
}

static double key_hz(int key) { return 440.0 * std::pow(2.0, (key - 69) / 12.0); }
static const double FS = 32768.0;

// one audible sine carrier: algorithm 7, operator 4 at full level, the three others muted; instant attack, no decay, fastest release
static OPN2_Instrument pure_tone() {
    OPN2_Instrument in; memset(&in, 0, sizeof in);
    in.fbalg = 7; in.lfosens = 0;
    for(int op = 0; op < 4; op++) {
        in.operators[op].dtfm_30 = 0x01; in.operators[op].level_40 = (uint8_t)(op == 3 ? 0x00 : 0x7F); in.operators[op].rsatk_50 = 0x1F;
        in.operators[op].amdecay1_60 = 0; in.operators[op].decay2_70 = 0; in.operators[op].susrel_80 = 0x0F; in.operators[op].ssgeg_90 = 0;
    }
    in.delay_on_ms = 1000; in.delay_off_ms = 50;
    return in;
}

struct Rig {
    Inst I; int rate; int chunk; std::vector<short> buf;
    std::vector<double> L, R; // everything rendered so far
    void render(double seconds) {
        long frames = (long)std::ceil(seconds * rate);
        while(frames > 0) {
            long n = std::min<long>(frames, chunk);
            buf.resize((size_t)n * 2);
            int got = opn2_generate(I.dev, (int)n * 2, buf.data());
            VCHECK(got == (int)n * 2, "opn2_generate(%ld) returned %d", n * 2, got);
            for(long i = 0; i < n; i++) { L.push_back(buf[(size_t)i * 2]); R.push_back(buf[(size_t)i * 2 + 1]); }
            frames -= n;
        }
    }
};

static double median_of(const std::vector<double> &v, size_t a, size_t b) { std::vector<double> t(v.begin() + (long)a, v.begin() + (long)b); std::sort(t.begin(), t.end()); return t.empty() ? 0 : t[t.size() / 2]; }
static double max_dev(const std::vector<double> &v, size_t a, size_t b, double ref) { double m = 0; for(size_t i = a; i < b && i < v.size(); i++) m = std::max(m, std::fabs(v[i] - ref)); return m; }
static double rms_of(const std::vector<double> &v, size_t a, size_t b, double ref) { double s = 0; size_t n = 0; for(size_t i = a; i < b && i < v.size(); i++, n++) s += (v[i] - ref) * (v[i] - ref); return n ? std::sqrt(s / (double)n) : 0; }
// frequency from interpolated positive-going zero crossings of (x - dc) on [a,b)
static double zc_freq(const std::vector<double> &v, size_t a, size_t b, int rate, int *ncross) {
    double dc = 0; for(size_t i = a; i < b; i++) dc += v[i]; dc /= (double)(b - a);
    // remove the DC over an integer number of periods on the second pass
    double first = -1, last = -1; int n = 0;
    for(int pass = 0; pass < 2; pass++) {
        first = last = -1; n = 0;
        for(size_t i = a + 1; i < b; i++) {
            double p = v[i - 1] - dc, q = v[i] - dc;
            if(p < 0 && q >= 0) { double t = (double)(i - 1) + p / (p - q); if(first < 0) first = t; last = t; n++; }
        }
        if(pass == 0 && n >= 2) { size_t x0 = (size_t)std::ceil(first), x1 = (size_t)std::floor(last); if(x1 > x0 + 4) { dc = 0; for(size_t i = x0; i < x1; i++) dc += v[i]; dc /= (double)(x1 - x0); } }
    }
    *ncross = n;
    if(n < 2 || last <= first) return 0;
    return (double)(n - 1) * rate / (last - first);
}
static double goertzel_amp(const std::vector<double> &v, size_t a, size_t b, int rate, double f, double dc) {
    double w = 2 * M_PI * f / rate, re = 0, im = 0; size_t n = b - a;
    for(size_t i = 0; i < n; i++) { double win = 0.5 - 0.5 * std::cos(2 * M_PI * (double)i / (double)(n - 1)); double x = (v[a + i] - dc) * win; re += x * std::cos(w * (double)i); im -= x * std::sin(w * (double)i); }
    return 2.0 * std::sqrt(re * re + im * im) / ((double)n * 0.5); // Hann window gain 0.5
}

struct Info { double f_meas = 0, f_err = 0, peak = 0, idle = 0, resid = 0, onset_ms = 0; bool judged_pitch = false; int events = 0; };

static void run(const Case &c, Info &info) {
    opnmidi_verif_tap = NULL; opnmidi_verif_frames = NULL;
    Rig r; r.rate = c.rate; r.chunk = c.chunk;
    r.I.open(c.rate); VCHECK(r.I.dev, "opn2_init(%d) failed", c.rate);
    OPN2_MIDIPlayer *d = r.I.dev;
    VCHECK(opn2_switchEmulator(d, c.emu) == 0, "switchEmulator(%s) refused", kEmuName[c.emu]);
    VCHECK(opn2_setNumChips(d, c.chips) == 0, "setNumChips(%d) refused", c.chips);
    opn2_setRunAtPcmRate(d, c.pcmrate);
    if(c.family >= 0) opn2_setChipType(d, c.family);
    OPN2_Bank bank; VCHECK(api_get_bank(d, 0, 0, 0, &bank), "cannot create bank");
    OPN2_Instrument tone = pure_tone();
    for(unsigned p = 0; p < 128; p++) VCHECK(opn2_setInstrument(d, &bank, p, &tone) == 0, "setInstrument failed");
    opn2_setVolumeRangeModel(d, OPNMIDI_VolumeModel_Generic);
    opn2_reset(d);
    const double f0 = key_hz(c.key);
    const double tol = (c.rate < 22050) ? 0.01 : 0.005;
    // ---- idle level before any note
    r.render(0.05);
    size_t n_idle = r.L.size();
    // the idle level is what the instance settles to before any note (the first samples are the resampler filling up)
    size_t i0 = n_idle / 2;
    double idleL = median_of(r.L, i0, n_idle), idleR = median_of(r.R, i0, n_idle);
    info.idle = idleL;
    VCHECK(max_dev(r.L, i0, n_idle, idleL) <= 0.01 * FS && max_dev(r.R, i0, n_idle, idleR) <= 0.01 * FS, "the idle output is not constant: deviates %.0f from its median %.0f before any note", std::max(max_dev(r.L, i0, n_idle, idleL), max_dev(r.R, i0, n_idle, idleR)), idleL);
    // ---- note-on(s)
    size_t t_on = r.L.size();
    std::vector<int> keys; keys.push_back(c.key);
    VCHECK(opn2_rt_noteOn(d, 0, (OPN2_UInt8)c.key, 127) == 1, "note-on of key %d did not sound", c.key);
    if(c.scen == SC_CHORD) for(int k : c.chord) { VCHECK(opn2_rt_noteOn(d, 0, (OPN2_UInt8)k, 127) == 1, "chord note-on of key %d did not sound", k); keys.push_back(k); }
    if(c.scen == SC_BURST) {
        for(const Op &p : c.burst) {
            switch(p.kind) {
            case O_NOTEON: opn2_rt_noteOn(d, (OPN2_UInt8)p.a, (OPN2_UInt8)p.b, (OPN2_UInt8)p.c); break;
            case O_NOTEOFF: opn2_rt_noteOff(d, (OPN2_UInt8)p.a, (OPN2_UInt8)p.b); break;
            case O_CC: opn2_rt_controllerChange(d, (OPN2_UInt8)p.a, (OPN2_UInt8)p.b, (OPN2_UInt8)p.c); break;
            case O_BEND: opn2_rt_pitchBend(d, (OPN2_UInt8)p.a, (OPN2_UInt16)p.b); break;
            }
            info.events++;
        }
    }
    // ---- hold
    double hold = std::max(0.25, 45.0 / f0 + 0.05);
    double settle = c.scen == SC_BURST ? 0.40 : 0.0; // a burst of thousands of register writes may take a while to reach queued cores
    r.render(settle + hold);
    size_t t_hold_end = r.L.size();
    size_t a0 = t_on + (size_t)(settle * c.rate);
    // onset (single notes and chords: nothing else delays the key-on)
    double peak = max_dev(r.L, a0, t_hold_end, idleL); info.peak = peak;
    if(!c.pcmrate) VCHECK(peak > 0.02 * FS, "the held note is not audible: peak deviation %.0f (%.2f %% FS) from idle %.0f", peak, 100 * peak / FS, idleL);
    if(c.scen != SC_BURST && !c.pcmrate) {
        size_t first = t_hold_end; for(size_t i = t_on; i < t_hold_end; i++) if(std::fabs(r.L[i] - idleL) > 0.25 * peak) { first = i; break; }
        info.onset_ms = 1000.0 * (double)(first - t_on) / c.rate;
        VCHECK(info.onset_ms <= 10.0, "the note starts %.1f ms after the note-on (limit 10 ms)", info.onset_ms);
    }
    // audible while held: RMS of every 50 ms window (at least 1.5 periods long) above 1 % FS
    if(!c.pcmrate) {
        size_t win = (size_t)(std::max(0.05, 1.5 / f0) * c.rate);
        size_t from = a0 + (size_t)(0.012 * c.rate);
        for(size_t w0 = from; w0 + win <= t_hold_end; w0 += win) {
            double rm = rms_of(r.L, w0, w0 + win, idleL);
            VCHECK(rm > 0.01 * FS, "the held note fades: RMS %.0f (%.2f %% FS) in the window starting %.0f ms after the note-on", rm, 100 * rm / FS, 1000.0 * (double)(w0 - t_on) / c.rate);
        }
    }
    // pitch
    if(!c.pcmrate) {
        if(c.scen == SC_CHORD) {
            size_t a = a0 + (size_t)(0.02 * c.rate), b = t_hold_end;
            double dc = 0; for(size_t i = a; i < b; i++) dc += r.L[i]; dc /= (double)(b - a);
            for(int k : keys) {
                // strongest component within the pitch tolerance of the nominal frequency
                double fk = key_hz(k), T = (double)(b - a) / c.rate, amp = 0;
                for(double f = fk * (1 - tol); f <= fk * (1 + tol) + 1e-9; f += 0.5 / T) amp = std::max(amp, goertzel_amp(r.L, a, b, c.rate, f, dc));
                VCHECK(amp > 0.012 * FS, "chord note %d: no tone within %.1f %% of its nominal %.2f Hz (strongest amplitude %.0f)", k, 100 * tol, fk, amp);
            }
            info.judged_pitch = true;
        } else {
            size_t a = a0 + (size_t)(0.02 * c.rate); int nc = 0;
            double f = zc_freq(r.L, a, t_hold_end, c.rate, &nc);
            VCHECK(nc >= 30, "only %d zero crossings in %.0f ms of a %.2f Hz tone", nc, 1000.0 * (double)(t_hold_end - a) / c.rate, f0);
            info.f_meas = f; info.f_err = (f - f0) / f0; info.judged_pitch = true;
            VCHECK(std::fabs(info.f_err) <= tol, "key %d sounds at %.3f Hz, nominal %.3f Hz: error %+.3f %% (limit %.1f %%)", c.key, f, f0, 100 * info.f_err, 100 * tol);
        }
    }
    // ---- release
    if(c.rel == REL_NOTEOFF) {
        for(int k : keys) opn2_rt_noteOff(d, 0, (OPN2_UInt8)k);
        if(c.scen == SC_BURST) for(int ch = 1; ch < 4; ch++) opn2_rt_controllerChange(d, (OPN2_UInt8)ch, 123, 0);
    } else if(c.rel == REL_PANIC) opn2_panic(d);
    else opn2_reset(d);
    r.render(0.2 + (c.scen == SC_BURST ? 0.3 : 0.0));
    size_t t_sil = r.L.size();
    r.render(0.3);
    double ref_L = idleL, ref_R = idleR;
    double dl = max_dev(r.L, t_sil, r.L.size(), ref_L), dr = max_dev(r.R, t_sil, r.R.size(), ref_R);
    info.resid = std::max(dl, dr);
    VCHECK(info.resid <= 0.01 * FS, "not silent after %s: output deviates %.0f (%.2f %% FS) from the idle level %.0f more than 200 ms after the release", kRel[c.rel], info.resid, 100 * info.resid / FS, idleL);
}

static void account(const Case &c, const Info &info, uint64_t h) {
    Stats &st = ctx().stats;
    bool nt = info.peak > 0.02 * FS;
    std::string sample;
    if(nt && st.samples.size() < 3) sample = brief(c) + fmt(": peak %.0f, idle %.0f, onset %.1f ms, f=%.3f Hz (%+.3f %%), residual %.0f, %d burst events", info.peak, info.idle, info.onset_ms, info.f_meas, 100 * info.f_err, info.resid, info.events);
    st.note_case_hash(h, nt, sample);
    st.label(fmt("core:%s", kEmuName[c.emu])); st.label(fmt("scenario:%s", kScen[c.scen])); st.label(fmt("release:%s", kRel[c.rel]));
    st.label(fmt("core_x_scenario:%s/%s", kEmuName[c.emu], kScen[c.scen]));
    st.label(c.rate < 22050 ? "rate:<22050" : (c.rate <= 48000 ? "rate:22050-48000" : "rate:>48000"));
    st.label(c.pcmrate ? "pcm_rate_mode:on" : "pcm_rate_mode:off"); st.label(fmt("family:%d", c.family)); st.label(fmt("chips:%d", c.chips));
    if(info.judged_pitch) st.label("pitch_judged");
    if(info.judged_pitch && c.scen != SC_CHORD) { double e = std::fabs(info.f_err) * 100; st.label(e < 0.05 ? "pitch_err:<0.05%" : (e < 0.2 ? "pitch_err:<0.2%" : (e < 0.5 ? "pitch_err:<0.5%" : "pitch_err:<1%"))); }
}

void showValue(const Case &c, std::ostream &os) { os << brief(c); }

static const int kCores[] = {EMU_MAME, EMU_NUKED3438, EMU_GENS, EMU_YMFM_OPN2, EMU_NP2, EMU_MAME2608, EMU_YMFM_OPNA, EMU_NUKED2612};
static const int kRates[] = {8000, 11025, 16000, 22050, 32000, 44100, 48000, 53267, 55466, 96000, 192000};

static rc::Gen<Case> genCase() {
    return rc::gen::exec([]() {
        Case c;
        c.emu = kCores[(size_t)*rng<int>(0, 7)];
        c.family = *rng<int>(-1, 1);
        c.rate = *rc::gen::oneOf(rc::gen::elementOf(std::vector<int>(kRates, kRates + 11)), rc::gen::elementOf(std::vector<int>(kRates, kRates + 11)), rc::gen::oneOf(rng<int>(8000, 48000), rng<int>(8000, 192000)));
        c.pcmrate = *rc::gen::element(0, 0, 0, 1);
        c.chips = *rng<int>(1, 3);
        c.scen = *rng<int>(0, 2);
        c.rel = *rng<int>(0, 2);
        c.chunk = *rc::gen::element(64, 256, 512, 1024, 4096);
        // the Nuked cores are slow: keep their renders short (higher keys need less audio for 45 periods)
        bool slow = c.emu == EMU_NUKED3438 || c.emu == EMU_NUKED2612;
        int kmax = 108; while(kmax > 24 && key_hz(kmax) >= 0.4 * c.rate) kmax--;
        int kmin = slow ? 48 : 24; if(kmin > kmax) kmin = kmax;
        c.key = *rng<int>(kmin, kmax);
        if(slow) c.chips = std::min(c.chips, 2);
        if(c.scen == SC_CHORD) {
            int n = *rng<int>(2, 5); std::vector<int> pool;
            for(int k = kmin; k <= kmax; k++) if(std::abs(k - c.key) >= 3) pool.push_back(k);
            for(int i = 0; i < n && !pool.empty(); i++) { int k = pool[(size_t)*rng<int>(0, (int)pool.size() - 1)]; c.chord.push_back(k); std::vector<int> np; for(int q : pool) if(std::abs(q - k) >= 3) np.push_back(q); pool.swap(np); }
        }
        if(c.scen == SC_BURST) {
            int n = *rng<int>(200, 600); std::vector<std::pair<int, int>> on; int cap = 6 * c.chips - 1;
            for(int i = 0; i < n; i++) {
                Op p; int k = *rng<int>(0, 9);
                if(k <= 2) { if((int)on.size() < cap) { p.kind = O_NOTEON; p.a = *rng<int>(1, 3); p.b = *rng<int>(36, 96); p.c = *rng<int>(40, 127); bool dup = false; for(auto &x : on) if(x.first == p.a && x.second == p.b) dup = true; if(!dup) on.push_back({p.a, p.b}); } else k = 3; }
                if(k == 3 || k == 4) { if(on.empty()) { p.kind = O_CC; p.a = 1; p.b = 7; p.c = 100; } else { size_t j = (size_t)*rng<int>(0, (int)on.size() - 1); p.kind = O_NOTEOFF; p.a = on[j].first; p.b = on[j].second; on.erase(on.begin() + (long)j); } }
                if(k >= 5 && k <= 7) { p.kind = O_CC; p.a = *rng<int>(0, 3); p.b = *rc::gen::element(7, 11); p.c = *rng<int>(0, 127); }
                if(k >= 8) { p.kind = O_BEND; p.a = *rng<int>(1, 3); p.b = *rng<int>(0, 16383); }
                c.burst.push_back(p);
            }
            for(auto &x : on) { Op p; p.kind = O_NOTEOFF; p.a = x.first; p.b = x.second; c.burst.push_back(p); }
            { Op p; p.kind = O_CC; p.a = 0; p.b = 7; p.c = 100; c.burst.push_back(p); p.b = 11; p.c = 127; c.burst.push_back(p); }
        }
        return c;
    });
}

int main(int argc, char **argv) {
    parse_args(argc, argv);
    Ctx &c = ctx();
    if(!c.kv.count("budget")) c.cpu_budget_s = 300; else c.cpu_budget_s = c.opt("budget", 300);
    if(c.mode == "replay") return replay_main([](const std::string &s) { Info info; Case cs = deser(s); run(cs, info); printf("%s: peak %.0f idle %.0f onset %.1f ms f=%.3f (%+.3f %%) residual %.0f\n", brief(cs).c_str(), info.peak, info.idle, info.onset_ms, info.f_meas, 100 * info.f_err, info.resid); });
    pbt("c20_core_pitch_and_silence", c.n, 100, []() {
        Case cs = *genCase();
        std::string s = ser(cs);
        run_case(s, [&] { Info info; run(cs, info); account(cs, info, fnv(s)); });
    });
    return finish();
}
