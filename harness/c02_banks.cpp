// C02: untrusted bank data is rejected or loaded safely; loaded banks (and instruments written through the API) are playable.
// Engines: libFuzzer (-DVERIF_FUZZ: bank/instrument file bytes + decoded op tail) and rapidcheck ("hostile_fields":
// well-formed bank images / API instruments whose field values are hostile, then play on them).
// Oracle: documented return codes, exact-size heap copy of the input (any read outside the block is an ASan report),
// ASan/UBSan/asserts, CPU-time watchdog (every call returns), register tap (chip index and register address ranges).
#include "common/inst.hpp"
#include <cmath>
#ifdef VERIF_FUZZ
#include "common/fuzz_util.hpp"
#else
#include "common/rc_util.hpp"
#endif
#include "common/ops.hpp"
#include "wopn_file.h"

using namespace vf;

struct HIns { int perc = 0, msb = 0, lsb = 0, prog = 0, vel_off = 0, flags = 0; WIns w; };
struct Case {
    int route = 0;        // 0 bank file through opn2_openBankData, 1 instruments through opn2_setInstrument, 2 raw bytes (fuzz) through all three loaders
    int version = 2, lfo = 0, chip = 0, emu = EMU_NP2, chips = 1, volmodel = 0, family = -1;
    std::vector<HIns> ins;
    std::string raw;      // route 2
    std::vector<Op> ops;
};

static std::string ser(const Case &c) {
    std::ostringstream o;
    o << "c02 " << c.route << " " << c.version << " " << c.lfo << " " << c.chip << " " << c.emu << " " << c.chips << " " << c.volmodel << " " << c.family << " " << c.ins.size() << "\n";
    for(const HIns &h : c.ins) {
        o << "ins " << h.perc << " " << h.msb << " " << h.lsb << " " << h.prog << " " << h.vel_off << " " << h.flags << " " << h.w.note_offset << " " << (int)h.w.perc_key << " " << (int)h.w.fbalg << " " << (int)h.w.lfosens
          << " " << h.w.delay_on << " " << h.w.delay_off << " " << hex(&h.w.ops[0][0], 28) << "\n";
    }
    o << "raw " << c.raw.size() << " " << (c.raw.empty() ? std::string("-") : hex(c.raw.data(), c.raw.size())) << "\n";
    o << ser_ops(c.ops) << "end\n";
    return o.str();
}
static Case deser(const std::string &s) {
    Case c; std::istringstream in(s); std::string w; size_t n = 0;
    in >> w >> c.route >> c.version >> c.lfo >> c.chip >> c.emu >> c.chips >> c.volmodel >> c.family >> n;
    for(size_t i = 0; i < n; i++) {
        HIns h; int no, pk, fb, ls, don, doff; std::string hx;
        in >> w >> h.perc >> h.msb >> h.lsb >> h.prog >> h.vel_off >> h.flags >> no >> pk >> fb >> ls >> don >> doff >> hx;
        h.w.note_offset = (int16_t)no; h.w.perc_key = (uint8_t)pk; h.w.fbalg = (uint8_t)fb; h.w.lfosens = (uint8_t)ls; h.w.delay_on = (uint16_t)don; h.w.delay_off = (uint16_t)doff;
        auto v = unhex(hx); for(size_t k = 0; k < 28 && k < v.size(); k++) (&h.w.ops[0][0])[k] = v[k];
        c.ins.push_back(h);
    }
    size_t rl = 0; std::string hx; in >> w >> rl >> hx; if(rl) { auto v = unhex(hx); c.raw.assign(v.begin(), v.end()); }
    c.ops = deser_ops(in);
    return c;
}

struct Info { bool accepted = false, past_magic = false; int noteons = 0, sounding = 0, writes = 0; };

// bank image holding the hostile instruments: one bank per distinct (perc,msb,lsb) + melodic/percussion 0:0, other slots audible
static std::string build_bank(const Case &c) {
    WFile f; f.version = (uint16_t)c.version; f.lfo_freq = (uint8_t)c.lfo; f.chip_type = (uint8_t)c.chip;
    auto bank_of = [&](int perc, int msb, int lsb) -> WBank & {
        std::vector<WBank> &v = perc ? f.perc : f.mel;
        for(WBank &b : v) if(b.msb == (uint8_t)msb && b.lsb == (uint8_t)lsb) return b;
        WBank b; b.name = perc ? "p" : "m"; b.msb = (uint8_t)msb; b.lsb = (uint8_t)lsb;
        for(int i = 0; i < 128; i++) b.ins.push_back(perc ? wins_audible((uint8_t)(i & 31), 2, 0, (uint8_t)(35 + i % 40)) : wins_audible((uint8_t)(i & 31), 1));
        v.push_back(b); return v.back();
    };
    bank_of(0, 0, 0); bank_of(1, 0, 0);
    for(const HIns &h : c.ins) bank_of(h.perc, c.version >= 2 ? h.msb : 0, c.version >= 2 ? h.lsb : 0).ins[(size_t)h.prog & 127] = h.w;
    return wopn_write(f);
}
static OPN2_Instrument to_api(const HIns &h) {
    OPN2_Instrument in; memset(&in, 0, sizeof in);
    in.version = 0; in.note_offset = h.w.note_offset; in.midi_velocity_offset = (OPN2_SInt8)h.vel_off; in.percussion_key_number = h.w.perc_key; in.inst_flags = (OPN2_UInt8)h.flags;
    in.fbalg = h.w.fbalg; in.lfosens = h.w.lfosens;
    for(int op = 0; op < 4; op++) { in.operators[op].dtfm_30 = h.w.ops[op][0]; in.operators[op].level_40 = h.w.ops[op][1]; in.operators[op].rsatk_50 = h.w.ops[op][2]; in.operators[op].amdecay1_60 = h.w.ops[op][3]; in.operators[op].decay2_70 = h.w.ops[op][4]; in.operators[op].susrel_80 = h.w.ops[op][5]; in.operators[op].ssgeg_90 = h.w.ops[op][6]; }
    in.delay_on_ms = h.w.delay_on; in.delay_off_ms = h.w.delay_off;
    return in;
}

static void check_tap(World &w, Info &info, int chips) {
    TapState &t = tap();
    for(const TapRec &r : t.log) {
        if(r.kind == 2) { VCHECK(r.chip < (size_t)chips, "pan write to chip %zu of %d", r.chip, chips); continue; }
        VCHECK(r.chip < (size_t)chips, "register write to chip %zu but only %d chips exist", r.chip, chips);
        VCHECK(r.port < 2, "register write to port %u", r.port);
        VCHECK(r.reg >= 0x21 && r.reg <= 0xB7, "write to register 0x%X (outside the FM register file)", r.reg);
        VCHECK(r.val <= 0xFF, "register 0x%X written with 0x%X (more than 8 bits)", r.reg, r.val);
        info.writes++;
    }
    t.log.clear(); w.tap_pos = 0;
}

// raw bytes through the three loaders; the block handed over is an exact-size heap copy
static void run_raw(const Case &c, Info &info, World &w) {
    OPN2_MIDIPlayer *d = w.I.dev;
    {
        std::vector<uint8_t> exact(c.raw.begin(), c.raw.end()); int err = -12345;
        WOPNFile *f = WOPN_LoadBankFromMem(exact.empty() ? (void *)"" : (void *)exact.data(), exact.size(), &err);
        if(f) {
            VCHECK(err == WOPN_ERR_OK || err == -12345, "bank returned with error %d set", err);
            // independent reading of the header (docs/wopn specification.txt): how long must the block be?
            const uint8_t *q = exact.data(); bool m2 = memcmp(q, "WOPN2-B2NK\0", 11) == 0; unsigned ver = m2 ? (q[11] | (q[12] << 8)) : 1; size_t o = m2 ? 13 : 11;
            unsigned nm = (q[o] << 8) | q[o + 1], np = (q[o + 2] << 8) | q[o + 3];
            VCHECK(ver <= 2, "accepted bank has version %u", ver);
            VCHECK(f->version == ver, "accepted bank claims version %u, the file says %u", f->version, ver);
            size_t need = o + 5 + (ver >= 2 ? 34u * (nm + np) : 0) + (size_t)(ver >= 2 ? 69 : 65) * 128 * (nm + np);
            VCHECK(need <= exact.size(), "a %zu-byte block was accepted as a bank that needs %zu bytes", exact.size(), need);
            // a kind with zero banks in the file is given one blank bank
            VCHECK(f->banks_count_melodic == (nm ? nm : 1) && f->banks_count_percussion == (np ? np : 1), "accepted bank has %u/%u banks, the file says %u/%u", f->banks_count_melodic, f->banks_count_percussion, nm, np);
            WOPN_Free(f);
        } else {
            VCHECK(err >= WOPN_ERR_BAD_MAGIC && err <= WOPN_ERR_NULL_POINTER, "rejected bank: undefined error code %d", err);
            if(err != WOPN_ERR_BAD_MAGIC) info.past_magic = true;
        }
    }
    {
        std::vector<uint8_t> exact(c.raw.begin(), c.raw.end()); OPNIFile fi; memset(&fi, 0, sizeof fi);
        int r = WOPN_LoadInstFromMem(&fi, exact.empty() ? (void *)"" : (void *)exact.data(), exact.size());
        VCHECK(r >= WOPN_ERR_OK && r <= WOPN_ERR_NULL_POINTER, "instrument loader: undefined return %d", r);
        if(r == WOPN_ERR_OK) { size_t need = 11 + (fi.version >= 2 ? 2 : 0) + 1 + 65; VCHECK(need <= exact.size(), "a %zu-byte block was accepted as an instrument that needs %zu bytes", exact.size(), need); info.past_magic = true; }
        else if(r != WOPN_ERR_BAD_MAGIC) info.past_magic = true;
    }
    {
        std::vector<uint8_t> exact(c.raw.begin(), c.raw.end());
        int r = opn2_openBankData(d, exact.empty() ? (const void *)"" : (const void *)exact.data(), (long)exact.size());
        VCHECK(r == 0 || r == -1, "openBankData returned %d", r);
        if(r != 0) { VCHECK(opn2_errorInfo(d)[0] != 0, "a rejected bank left no error text"); install_default_banks(d); }
        info.accepted = r == 0;
    }
}

static void run(const Case &c, Info &info) {
    World w; w.tick_advance_threshold_ms = 1000;
    w.start(8000, c.emu, 1);
    OPN2_MIDIPlayer *d = w.I.dev;
    int chips = c.chips < 1 ? 1 : c.chips;
    VCHECK(opn2_setNumChips(d, chips) == 0, "setNumChips(%d) refused", chips);
    if(c.route == 2) run_raw(c, info, w);
    else if(c.route == 0) {
        std::string img = build_bank(c);
        std::vector<uint8_t> exact(img.begin(), img.end());
        int r = opn2_openBankData(d, exact.data(), (long)exact.size());
        VCHECK(r == 0, "a well-formed bank image (%zu bytes, v%d) was rejected: %s", img.size(), c.version, opn2_errorInfo(d));
        info.accepted = true; info.past_magic = true;
    } else {
        for(const HIns &h : c.ins) {
            OPN2_Bank b; OPN2_BankId id; id.percussive = (OPN2_UInt8)h.perc; id.msb = (OPN2_UInt8)h.msb; id.lsb = (OPN2_UInt8)h.lsb;
            int r = opn2_getBank(d, &id, OPNMIDI_Bank_Create, &b);
            VCHECK(r == 0, "getBank(create %d:%d:%d) failed", h.perc, h.msb, h.lsb);
            OPN2_Instrument in = to_api(h);
            VCHECK(opn2_setInstrument(d, &b, (unsigned)h.prog & 127, &in) == 0, "setInstrument failed");
            OPN2_Instrument back; VCHECK(opn2_getInstrument(d, &b, (unsigned)h.prog & 127, &back) == 0, "getInstrument failed");
        }
        info.accepted = true; info.past_magic = true;
    }
    if(c.family >= 0) opn2_setChipType(d, c.family);
    opn2_setVolumeRangeModel(d, c.volmodel);
    opn2_reset(d);
    chips = opn2_getNumChipsObtained(d);
    tap().log.clear(); w.tap_pos = 0;
    for(const Op &p : c.ops) {
        w.apply(p);
        if(p.kind == O_NOTEON) { info.noteons++; VCHECK(w.last_ret == 0 || w.last_ret == 1, "rt_noteOn returned %d", w.last_ret); if(w.last_ret == 1) info.sounding++; }
        if(p.kind == O_CHIPS && w.last_ret == 0) chips = opn2_getNumChipsObtained(d);
        check_tap(w, info, chips);
    }
    // a short render at the end: whatever state the ops left must be renderable
    std::vector<short> buf(512); int got = opn2_generate(d, 512, buf.data()); VCHECK(got == 512, "generate returned %d", got);
    check_tap(w, info, chips);
}

static void account(const Case &c, const Info &info, uint64_t h) {
    Stats &st = ctx().stats;
    bool nt = c.route == 2 ? info.past_magic : (info.accepted && info.sounding > 0);
    std::string sample;
    if(nt && st.samples.size() < 3) {
        if(c.route == 2) sample = fmt("raw %zu bytes (%s): ", c.raw.size(), info.accepted ? "accepted" : "rejected after the magic") + hex(c.raw.data(), std::min<size_t>(c.raw.size(), 32)) + "...";
        else if(!c.ins.empty()) sample = fmt("%s route, v%d, %zu hostile instruments (first: %s %d:%d prog %d note_offset %d drum key %d fbalg 0x%02X delays %u/%u), %zu ops, %d/%d note-ons sounding",
                                             c.route ? "API" : "file", c.version, c.ins.size(), c.ins[0].perc ? "perc" : "mel", c.ins[0].msb, c.ins[0].lsb, c.ins[0].prog, c.ins[0].w.note_offset, c.ins[0].w.perc_key, c.ins[0].w.fbalg, c.ins[0].w.delay_on, c.ins[0].w.delay_off, c.ops.size(), info.sounding, info.noteons);
    }
    st.note_case_hash(h, nt, sample);
    st.label(c.route == 2 ? (info.accepted ? "raw:accepted" : (info.past_magic ? "raw:rejected_after_magic" : "raw:bad_magic")) : (c.route ? "route:api" : "route:file"));
    if(c.route != 2) {
        st.label(info.sounding ? "played" : "no_note_sounded");
        for(const HIns &x : c.ins) { int no = x.w.note_offset; if(no >= 12000 || no <= -12000) { st.label("note_offset_extreme"); break; } }
        st.label(fmt("emu:%s", kEmuName[c.emu])); st.label(fmt("volmodel:%d", c.volmodel));
    }
}

#ifdef VERIF_FUZZ
extern "C" int LLVMFuzzerInitialize(int *argc, char ***argv) { return fuzz_init(argc, argv); }
extern "C" int LLVMFuzzerTestOneInput(const uint8_t *data, size_t size) {
    Case c;
    if(size > 4 && memcmp(data, "c02 ", 4) == 0) {
        c = deser(std::string((const char *)data, size));
        // a saved case, possibly mutated by the fuzzer: keep only what the generators can produce
        if((c.version != 1 && c.version != 2) || c.route < 0 || c.route > 2 || c.chips < 1 || c.chips > 3 || c.emu < 0 || c.emu > EMU_NUKED2612 || c.emu == EMU_VGM || c.family < -1 || c.family > 1 || c.ins.size() > 8 || c.ops.size() > 200) return 0;
        for(HIns &h : c.ins) { h.perc &= 1; h.prog &= 127; if(c.route == 1) { h.msb &= 127; h.lsb &= 127; } else { h.msb &= 255; h.lsb &= 255; h.vel_off = 0; h.flags = 0; if(c.version < 2) h.msb = h.lsb = 0; } if(h.vel_off < -128 || h.vel_off > 127) h.vel_off = 0; h.flags &= 255; }
        for(Op &p : c.ops) if(p.kind == O_ADVANCE && (p.a < 0 || p.a > 3000)) p.a = 10;
    } else {
        Bytes b(data, size);
        c.route = 2; c.chips = (int)b.u(1, 2); c.volmodel = (int)b.u(0, 6); c.family = (int)b.u(0, 2) - 1;
        int nops = (int)b.u(0, 10);
        for(int i = 0; i < nops; i++) {
            Op p; int k = (int)b.u(0, 7); int ch = (int)b.u(0, 15);
            switch(k) {
            case 0: case 1: p.kind = O_NOTEON; p.a = ch; p.b = (int)b.u(0, 255); p.c = (int)b.u(0, 255); break;
            case 2: p.kind = O_PATCH; p.a = ch; p.b = (int)b.u(0, 255); break;
            case 3: p.kind = O_CC; p.a = ch; p.b = (int)b.u(0, 1) ? 0 : 32; p.c = (int)b.u(0, 255); break;
            case 4: p.kind = O_BEND; p.a = ch; p.b = (int)b.u(0, 16383); break;
            case 5: p.kind = O_ADVANCE; p.a = (int)b.u(1, 40); break;
            case 6: p.kind = O_NOTEOFF; p.a = ch; p.b = (int)b.u(0, 255); break;
            default: p.kind = O_CC; p.a = ch; p.b = (int)b.u(0, 127); p.c = (int)b.u(0, 255); break;
            }
            c.ops.push_back(p);
        }
        c.raw = b.rest();
    }
    Info info; arm_watchdog(30);
    try { run(c, info); } catch(const Fail &f) { fuzz_fail(f.msg); }
    account(c, info, fnv(data, size));
    return 0;
}
#else
void showValue(const Case &c, std::ostream &os) { os << ser(c).substr(0, 700); }

static rc::Gen<int> genNoteOffset() {
    return rc::gen::oneOf(rc::gen::element(-32768, -32767, -12291, -12290, -12000, -6000, -129, -128, -127, -1, 0, 1, 12, 127, 128, 255, 6000, 12000, 12100, 12150, 12180, 12200, 12230, 12260, 12288, 12289, 12290, 12291, 20000, 32766, 32767),
                          rng<int>(-32768, 32767), rng<int>(-200, 200));
}
static rc::Gen<int> genByte() { return rc::gen::oneOf(rc::gen::element(0, 1, 7, 8, 15, 16, 31, 63, 64, 127, 128, 129, 200, 254, 255), rng<int>(0, 255)); }
static rc::Gen<int> genDelay() { return rc::gen::oneOf(rc::gen::element(0, 1, 2, 39999, 40000, 40001, 65534, 65535), rng<int>(0, 65535)); }

int main(int argc, char **argv) {
    parse_args(argc, argv);
    Ctx &c = ctx();
    if(!c.kv.count("budget")) c.cpu_budget_s = 30; else c.cpu_budget_s = c.opt("budget", 30);
    if(c.mode == "replay") return replay_main([](const std::string &s) { Info info; Case cs; if(s.rfind("c02 ", 0) == 0) cs = deser(s); else { cs.route = 2; cs.raw = s; Op p; p.kind = O_NOTEON; p.a = 0; p.b = 60; p.c = 100; cs.ops.push_back(p); p.kind = O_ADVANCE; p.a = 20; cs.ops.push_back(p); } run(cs, info); });
    if(c.mode == "seeds") {
        std::string out = c.opts("out", "."); int i = 0;
        auto put = [&](const std::string &f) { FILE *fo = fopen((out + "/seed" + std::to_string(i++) + ".bin").c_str(), "wb"); fwrite(f.data(), 1, f.size(), fo); fclose(fo); };
        put(default_wopn_image());
        { WFile f; f.version = 1; WBank m; m.ins.push_back(wins_audible(1, 1)); WBank p; p.ins.push_back(wins_audible(2, 2, 0, 40)); f.mel.push_back(m); f.perc.push_back(p); put(wopn_write(f)); }
        { std::string o("WOPN2-IN2T\0", 11); o += (char)2; o += (char)0; o += (char)0; WIns wi = wins_audible(3, 1); std::string body; w_ins(body, wi, 1); put(o + body); }
        { std::string o("WOPN2-INST\0", 11); o += (char)1; WIns wi = wins_audible(3, 1); std::string body; w_ins(body, wi, 1); put(o + body); }
        return 0;
    }
    pbt("c02_hostile_fields", c.n, 60, []() {
        Case cs;
        cs.route = *rng<int>(0, 1); cs.version = *rc::gen::element(2, 2, 2, 1); cs.lfo = *rng<int>(0, 15); cs.chip = *rng<int>(0, 1);
        cs.emu = *rc::gen::element((int)EMU_NP2, (int)EMU_NP2, (int)EMU_NP2, (int)EMU_MAME, (int)EMU_GENS, (int)EMU_MAME2608, (int)EMU_YMFM_OPN2, (int)EMU_YMFM_OPNA);
        cs.chips = *rc::gen::element(1, 1, 2, 3); cs.volmodel = *rng<int>(0, 6); cs.family = *rng<int>(-1, 1);
        int ni = *rng<int>(1, 5);
        for(int i = 0; i < ni; i++) {
            HIns h; h.perc = *rc::gen::element(0, 0, 1);
            h.msb = *rc::gen::element(0, 0, 0, 1, 127, 128, 255); h.lsb = *rc::gen::element(0, 0, 0, 1, 127, 128, 255);
            h.prog = *rng<int>(0, 127); h.vel_off = *rc::gen::element(0, 0, -128, -1, 1, 127); h.flags = *rc::gen::element(0, 0, 0, 1, 2, 3, 4, 0x80, 0xFF);
            bool keep_audible = *rng<int>(0, 2) != 0;
            h.w = wins_audible((uint8_t)(i + 1), (uint8_t)(h.perc ? 2 : 1));
            h.w.note_offset = (int16_t)*genNoteOffset(); h.w.perc_key = (uint8_t)*genByte();
            if(!keep_audible) { h.w.fbalg = (uint8_t)*genByte(); h.w.lfosens = (uint8_t)*genByte(); for(int k = 0; k < 28; k++) (&h.w.ops[0][0])[k] = (uint8_t)*genByte(); h.w.delay_on = (uint16_t)*genDelay(); h.w.delay_off = (uint16_t)*genDelay(); }
            else if(*rng<int>(0, 3) == 0) { h.w.delay_on = (uint16_t)*genDelay(); h.w.delay_off = (uint16_t)*genDelay(); if(h.w.delay_on == 0 && h.w.delay_off == 0) h.w.delay_on = 1; }
            if(cs.route == 0) { h.vel_off = 0; h.flags = 0; if(cs.version < 2) { h.msb = 0; h.lsb = 0; } }
            else { h.msb &= 127; h.lsb &= 127; } // opn2_getBank documents 0..127
            cs.ins.push_back(h);
        }
        // ops: select each hostile instrument on a channel and play it, interleaved with controllers, bends and time
        int nops = *rng<int>(4, 40);
        for(int i = 0; i < nops; i++) {
            const HIns &h = cs.ins[(size_t)*rng<int>(0, ni - 1)];
            int ch = h.perc ? 9 : *rc::gen::element(0, 1, 2, 15);
            Op p; int k = *rng<int>(0, 13);
            switch(k) {
            case 0: case 1: { Op q; q.kind = O_CC; q.a = ch; q.b = 0; q.c = h.msb; cs.ops.push_back(q); q.b = 32; q.c = h.lsb; cs.ops.push_back(q); if(!h.perc) { q.kind = O_PATCH; q.b = h.prog; q.c = 0; cs.ops.push_back(q); } else { q.kind = O_PATCH; q.b = *rng<int>(0, 1) ? 0 : h.msb; q.c = 0; cs.ops.push_back(q); }
                p.kind = O_NOTEON; p.a = ch; p.b = h.perc ? h.prog : *rc::gen::oneOf(rc::gen::element(0, 1, 12, 60, 64, 100, 126, 127, 128, 200, 255), rng<int>(0, 127)); p.c = *rc::gen::element(1, 64, 100, 127, 128, 255); break; }
            case 2: case 3: p.kind = O_NOTEON; p.a = ch; p.b = h.perc ? h.prog : *rng<int>(0, 127); p.c = *rng<int>(1, 127); break;
            case 4: p.kind = O_BEND; p.a = ch; p.b = *rc::gen::element(0, 1, 8191, 8192, 8193, 16383, 4096, 12288); break;
            case 5: { Op q; q.kind = O_CC; q.a = ch; q.b = 101; q.c = 0; cs.ops.push_back(q); q.b = 100; q.c = 0; cs.ops.push_back(q); p.kind = O_CC; p.a = ch; p.b = 6; p.c = *rc::gen::element(0, 1, 2, 12, 24, 48, 96, 127); break; }
            case 6: p.kind = O_CC; p.a = ch; p.b = *rc::gen::element(1, 5, 7, 10, 11, 37, 64, 65, 66, 67, 71, 74, 84, 91, 93, 120, 121, 123, 126, 127); p.c = *genByte(); break;
            case 7: p.kind = O_ATNOTE; p.a = ch; p.b = h.perc ? h.prog : *rng<int>(0, 127); p.c = *genByte(); break;
            case 8: p.kind = O_ATCH; p.a = ch; p.b = *genByte(); break;
            case 9: case 10: p.kind = O_ADVANCE; p.a = *rc::gen::element(1, 2, 5, 16, 64, 300, 2500); break;
            case 11: p.kind = O_NOTEOFF; p.a = ch; p.b = h.perc ? h.prog : *rng<int>(0, 127); break;
            case 12: p.kind = *rc::gen::element((int)O_PANIC, (int)O_RESETSTATE, (int)O_RESET); break;
            default: p.kind = O_CC; p.a = ch; p.b = 65; p.c = 127; { Op q; q.kind = O_CC; q.a = ch; q.b = 5; q.c = *genByte(); cs.ops.push_back(q); } break;
            }
            cs.ops.push_back(p);
        }
        std::string s = ser(cs);
        run_case(s, [&] { Info info; run(cs, info); account(cs, info, fnv(s)); });
    });
    // hostile headers: every magic/version, bank counts from a boundary list (incl. pairs that wrap 16-bit sums), body present / truncated / absent
    pbt("c02_hostile_header", std::max<long>(c.n / 4, 20), 60, []() {
        Case cs; cs.route = 2; cs.chips = 1;
        std::string b; int ver = *rc::gen::element(-1, 0, 1, 2, 2, 2, 3, 65535);
        if(ver < 0) b.append("WOPN2-BANK\0", 11); else { b.append("WOPN2-B2NK\0", 11); b += (char)(ver & 255); b += (char)(ver >> 8); }
        static const std::vector<int> cnt = {0, 1, 2, 3, 127, 128, 255, 256, 257, 32767, 32768, 32769, 65534, 65535};
        int nm = *rc::gen::elementOf(cnt), np = *rc::gen::elementOf(cnt);
        if(*rng<int>(0, 3) == 0) np = (65536 - nm) & 0xFFFF;           // sums that wrap to 0
        if(*rng<int>(0, 5) == 0) { nm = *rng<int>(0, 4); np = *rng<int>(0, 4); }
        b += (char)(nm >> 8); b += (char)nm; b += (char)(np >> 8); b += (char)np; b += (char)*rng<int>(0, 255);
        size_t isz = (ver >= 2 && ver <= 2) ? 69 : 65, meta = (ver == 2) ? 34 : 0;
        size_t full = (size_t)(nm + np) * (meta + isz * 128);
        size_t body;
        switch(*rng<int>(0, 5)) {
        case 0: body = 0; break;
        case 1: body = (size_t)*rng<int>(0, 200); break;
        case 2: body = full; break;
        case 3: body = full > 0 ? full - (size_t)*rng<int>(1, 70) % full : 0; break;
        case 4: body = (size_t)(nm + np) * meta + (size_t)*rng<int>(0, 2) * isz * 128; break;   // names present, 0-2 banks of instruments
        default: body = (size_t)((nm + np) & 0xFFFF) * (meta + isz * 128); break;                // what a wrapped 16-bit total would ask for
        }
        if(body > 70000) body = 70000;
        int fill = *rng<int>(0, 255);
        b.append(body, (char)fill);
        cs.raw = b;
        Op p; p.kind = O_NOTEON; p.a = 0; p.b = 60; p.c = 100; cs.ops.push_back(p);
        std::string s = ser(cs);
        run_case(s, [&] { Info info; run(cs, info); account(cs, info, fnv(s)); });
    });
    return finish();
}
#endif
