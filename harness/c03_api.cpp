// C03: any sequence of public API calls on a live instance is memory-safe and terminates; documented failures return their error value.
// Engines: rapidcheck (structured call lists, shrinking) and libFuzzer (-DVERIF_FUZZ, same call decoder).
#include "common/inst.hpp"
#include <sstream>
#include <climits>
#include <cmath>
#include <set>
#include <map>
#ifdef VERIF_FUZZ
#include "common/fuzz_util.hpp"
#else
#include "common/rc_util.hpp"
#endif
#include "common/ops.hpp"

using namespace vf;

enum Fn {
    F_setDeviceIdentifier, F_setNumChips, F_getNumChips, F_getNumChipsObtained, F_reserveBanks, F_getBank, F_getBankId, F_removeBank, F_iterBanks,
    F_getInstrument, F_setInstrument, F_setLfoEnabled, F_getLfoEnabled, F_setLfoFrequency, F_getLfoFrequency, F_setChipType, F_getChipType,
    F_setScaleModulators, F_setFullRangeBrightness, F_setAutoArpeggio, F_getAutoArpeggio, F_setLoopEnabled, F_setLoopCount, F_setLoopHooksOnly,
    F_setSoftPanEnabled, F_setLogarithmicVolumes, F_setVolumeRangeModel, F_getVolumeRangeModel, F_setChannelAllocMode, F_getChannelAllocMode,
    F_openBankFile, F_openBankData, F_names, F_switchEmulator, F_setRunAtPcmRate, F_reset, F_openFile, F_openData, F_selectSongNum, F_getSongsCount,
    F_times, F_positionSeek, F_positionRewind, F_setTempo, F_atEnd, F_trackCount, F_meta, F_metaTrackTitle, F_metaMarker, F_setTrackOptions,
    F_setChannelEnabled, F_tickEvents, F_play, F_playFormat, F_generate, F_generateFormat, F_panic, F_rt_resetState, F_rt_noteOn, F_rt_noteOff,
    F_rt_noteAfterTouch, F_rt_channelAfterTouch, F_rt_controllerChange, F_rt_patchChange, F_rt_pitchBend, F_rt_pitchBendML, F_rt_bankChangeLSB,
    F_rt_bankChangeMSB, F_rt_bankChange, F_rt_systemExclusive, F_setHooks, F_describeChannels, F_reopen, F_NFN
};
static const char *const fname[F_NFN] = {
    "setDeviceIdentifier", "setNumChips", "getNumChips", "getNumChipsObtained", "reserveBanks", "getBank", "getBankId", "removeBank", "iterBanks",
    "getInstrument", "setInstrument", "setLfoEnabled", "getLfoEnabled", "setLfoFrequency", "getLfoFrequency", "setChipType", "getChipType",
    "setScaleModulators", "setFullRangeBrightness", "setAutoArpeggio", "getAutoArpeggio", "setLoopEnabled", "setLoopCount", "setLoopHooksOnly",
    "setSoftPanEnabled", "setLogarithmicVolumes", "setVolumeRangeModel", "getVolumeRangeModel", "setChannelAllocMode", "getChannelAllocMode",
    "openBankFile", "openBankData", "names", "switchEmulator", "setRunAtPcmRate", "reset", "openFile", "openData", "selectSongNum", "getSongsCount",
    "times", "positionSeek", "positionRewind", "setTempo", "atEnd", "trackCount", "meta", "metaTrackTitle", "metaMarker", "setTrackOptions",
    "setChannelEnabled", "tickEvents", "play", "playFormat", "generate", "generateFormat", "panic", "rt_resetState", "rt_noteOn", "rt_noteOff",
    "rt_noteAfterTouch", "rt_channelAfterTouch", "rt_controllerChange", "rt_patchChange", "rt_pitchBend", "rt_pitchBendML", "rt_bankChangeLSB",
    "rt_bankChangeMSB", "rt_bankChange", "rt_systemExclusive", "setHooks", "describeChannels", "reopen"};
static const int fgroup[F_NFN] = { // 0 setup, 1 bank, 2 rt, 3 sysex, 4 sequencer, 5 audio
    0, 0, 0, 0, 1, 1, 1, 1, 1, 1, 1, 0, 0, 0, 0, 0, 0, 0, 0, 0, 0, 4, 4, 4, 0, 0, 0, 0, 0, 0, 1, 1, 0, 0, 0, 0, 4, 4, 4, 4, 4, 4, 4, 4, 4, 4, 4, 4, 4, 4, 4, 4, 5, 5, 5, 5, 2, 2, 2, 2, 2, 2, 2, 2, 2, 2, 2, 2, 2, 3, 0, 0, 0};

struct Call { int fn = 0; long long a = 0, b = 0, c = 0, d = 0; };
struct Case { int rate_idx = 0; std::vector<Call> calls; };
static const long kRates[] = {8000, 11025, 22050, 44100, 48000, 53267, 55466, 96000, 192000};

static std::string ser(const Case &c) {
    std::ostringstream o; o << "rate " << c.rate_idx << "\n";
    for(const Call &k : c.calls) o << fname[k.fn] << " " << k.a << " " << k.b << " " << k.c << " " << k.d << "\n";
    return o.str();
}
static Case deser(const std::string &s) {
    Case c; std::istringstream in(s); std::string w; in >> w >> c.rate_idx;
    while(in >> w) { Call k; k.fn = -1; for(int i = 0; i < F_NFN; i++) if(w == fname[i]) k.fn = i; in >> k.a >> k.b >> k.c >> k.d; if(k.fn >= 0) c.calls.push_back(k); }
    return c;
}

// ---------------------------------------------------------------- blob pools
static std::string smf_with_markers() {
    std::string trk;
    auto ev = [&](std::initializer_list<int> b) { for(int x : b) trk += (char)x; };
    ev({0x00, 0xFF, 0x03, 0x03, 'a', 'b', 'c'}); ev({0x00, 0xFF, 0x02, 0x02, '(', 'c'}); ev({0x00, 0xFF, 0x51, 0x03, 0x07, 0xA1, 0x20});
    ev({0x00, 0xFF, 0x06, 0x09, 'l', 'o', 'o', 'p', 'S', 't', 'a', 'r', 't'});
    ev({0x00, 0xC0, 0x05, 0x00, 0x90, 0x3C, 0x64, 0x30, 0x80, 0x3C, 0x00, 0x00, 0x99, 0x24, 0x7F, 0x10, 0x89, 0x24, 0x00});
    ev({0x00, 0xB0, 0x40, 0x7F, 0x00, 0xE0, 0x00, 0x50, 0x00, 0xFF, 0x06, 0x07, 'l', 'o', 'o', 'p', 'E', 'n', 'd'});
    ev({0x20, 0xF0, 0x05, 0x7E, 0x7F, 0x09, 0x01, 0xF7, 0x00, 0xFF, 0x2F, 0x00});
    std::string f("MThd\0\0\0\6\0\1\0\1\0\x60", 14);
    f += "MTrk"; f += (char)0; f += (char)0; f += (char)(trk.size() >> 8); f += (char)(trk.size() & 255);
    return f + trk;
}
static const std::vector<std::string> &music_pool() {
    static std::vector<std::string> p;
    if(p.empty()) {
        p.push_back(tiny_smf(0, 60, 3)); p.push_back(tiny_smf(9, 36, 8)); p.push_back(smf_with_markers());
        std::string t = smf_with_markers(); p.push_back(t.substr(0, t.size() / 2)); p.push_back(t.substr(0, 20));
        p.push_back(std::string("MUS\x1a\0\0\0\0", 8)); p.push_back(std::string("FORM\0\0\0\x0eXDIRINFO\0\0\0\2\1\0", 22)); p.push_back(std::string("RIFF\4\0\0\0RMID", 12));
        p.push_back(std::string(64, '\xff')); p.push_back(""); p.push_back("GMF\1garbage"); p.push_back(std::string("CTMF\1\1\0\0", 8));
    }
    return p;
}
static const std::vector<std::string> &bank_pool() {
    static std::vector<std::string> p;
    if(p.empty()) {
        p.push_back(default_wopn_image()); p.push_back(default_wopn_image(9, 1));
        std::string t = default_wopn_image(); p.push_back(t.substr(0, t.size() - 1)); p.push_back(t.substr(0, 40)); p.push_back(t.substr(0, 12));
        p.push_back(std::string("WOPN2-B2NK\0\2\0\xff\xff\xff\xff\0", 18)); p.push_back(std::string(100, 'x')); p.push_back("");
        { WFile f; f.version = 2; WBank b; WIns w = wins_audible(1, 1, 32767); for(int i = 0; i < 128; i++) b.ins.push_back(w); b.msb = 200; b.lsb = 200; f.mel.push_back(b); f.perc.push_back(b); p.push_back(wopn_write(f)); }
        // entries 9..17 (the first nine keep their indices, and 18 % 18 == 0, for the committed regression inputs)
        { auto near = [](int chip) { WFile f; f.version = 2; f.chip_type = (uint8_t)chip; WBank b, pb; static const int offs[] = {12000, 12100, 12150, 12180, 12200, 12230, 12260, 12288, 12289, 12290, 12291, 20000, -12290, -32768};
              for(int i = 0; i < 128; i++) { b.ins.push_back(wins_audible(1, 1, offs[i % 14])); pb.ins.push_back(wins_audible(1, 2, offs[i % 14], (uint8_t)(35 + i % 40))); } f.mel.push_back(b); f.perc.push_back(pb); return wopn_write(f); };
          p.push_back(near(0)); p.push_back(near(1)); std::string t = near(0); p.push_back(t.substr(0, t.size() - 100)); }   // note offsets around the point where the frequency formula overflows (tone ~12188..12290)
        { WFile f; f.version = 1; WBank m, q; for(int i = 0; i < 128; i++) { m.ins.push_back(wins_audible((uint8_t)(i & 31), 1)); q.ins.push_back(wins_audible((uint8_t)(i & 31), 2, 0, (uint8_t)(35 + i % 40))); } f.mel.push_back(m); f.perc.push_back(q); p.push_back(wopn_write(f)); }
        { WFile f; f.version = 2; WBank q; for(int i = 0; i < 128; i++) q.ins.push_back(wins_audible(1, 2, 0, 40)); f.perc.push_back(q); p.push_back(wopn_write(f)); }   // no melodic bank
        { WFile f; f.version = 2; WBank m; for(int i = 0; i < 128; i++) m.ins.push_back(wins_audible(1, 1)); f.mel.push_back(m); p.push_back(wopn_write(f)); }           // no percussion bank
        { WFile f; f.version = 2; for(int k = 0; k < 4; k++) { WBank m; m.lsb = (uint8_t)k; m.msb = (uint8_t)(k == 3 ? 127 : 0); for(int i = 0; i < 128; i++) m.ins.push_back(wins_audible((uint8_t)k, 1, k * 12)); f.mel.push_back(m); } WBank q; for(int i = 0; i < 128; i++) q.ins.push_back(wins_audible(1, 2, 0, 40)); f.perc.push_back(q); p.push_back(wopn_write(f)); }
        p.push_back(default_wopn_image(15, 0)); p.push_back(default_wopn_image(0, 1));
    }
    return p;
}

// ---------------------------------------------------------------- hooks
static thread_local long g_hook_calls = 0;
static void h_raw(void *, OPN2_UInt8, OPN2_UInt8, OPN2_UInt8, const OPN2_UInt8 *, size_t) { g_hook_calls++; }
static void h_note(void *, int, int, int, int, double) { g_hook_calls++; }
static void h_dbg(void *, const char *, ...) { g_hook_calls++; }
static void h_loop(void *) { g_hook_calls++; }

struct Info { std::set<int> groups; bool boundary = false; long skipped_audio = 0; long calls = 0; };

static bool is_boundary(long long v) { return v == 0 || v == 15 || v == 16 || v == 17 || v == 126 || v == 127 || v == 128 || v == 255 || v < 0 || v >= 100; }

static void run(const Case &cs, Info &info, const std::string &tmpdir) {
    long rate = kRates[(size_t)cs.rate_idx % 9];
    Inst I(rate);
    VCHECK(I.dev, "opn2_init(%ld) failed: %s", rate, opn2_errorString());
    std::map<unsigned, OPN2_Bank> handles; // live bank handles by key
    int cur_emu = 0; unsigned cur_chips = 2;
    double budget = 3.0e6; // chip-frame budget (weighted), so slow cores cannot eat the run
    auto cost_of = [&](long frames) {
        static const double w[] = {5, 60, 2, 5, 1, 5, 8, 0.2, 60};
        return (double)frames * (double)cur_chips * w[(size_t)cur_emu % 9];
    };
    for(size_t ci = 0; ci < cs.calls.size(); ci++) {
        const Call &k = cs.calls[ci];
        OPN2_MIDIPlayer *d = I.dev;
        info.groups.insert(fgroup[k.fn]); info.calls++;
        if(is_boundary(k.a) || is_boundary(k.b)) info.boundary = true;
        OPN2_UInt8 a8 = (OPN2_UInt8)k.a, b8 = (OPN2_UInt8)k.b, c8 = (OPN2_UInt8)k.c;
        int ai = (int)k.a, bi = (int)k.b;
        switch(k.fn) {
        case F_setDeviceIdentifier: { int r = opn2_setDeviceIdentifier(d, (unsigned)k.a); VCHECK(r == (((unsigned)k.a > 15) ? -1 : 0), "setDeviceIdentifier(%u) returned %d", (unsigned)k.a, r); break; }
        case F_setNumChips: {
            int r = opn2_setNumChips(d, ai);
            bool ok = ai >= 1 && ai <= 100;
            VCHECK(r == (ok ? 0 : -1), "setNumChips(%d) returned %d", ai, r);
            if(ok) cur_chips = (unsigned)ai;
            int got = opn2_getNumChipsObtained(d);
            VCHECK(got >= 1 && got <= 100, "getNumChipsObtained reports %d after setNumChips(%d)", got, ai);
            break;
        }
        case F_getNumChips: { int r = opn2_getNumChips(d); VCHECK(r >= 1 && r <= 100, "getNumChips reports %d", r); break; }
        case F_getNumChipsObtained: { int r = opn2_getNumChipsObtained(d); VCHECK(r >= 1 && r <= 100, "getNumChipsObtained reports %d", r); break; }
        case F_reserveBanks: opn2_reserveBanks(d, (unsigned)(k.a < 0 ? 0 : k.a % 300)); break;
        case F_getBank: {
            OPN2_BankId id; id.percussive = a8; id.msb = b8; id.lsb = c8; OPN2_Bank b;
            // every second call draws the id from a pool of 16 that share two hash buckets of the bank map (collision chains, re-creation after removal)
            if(k.d & 8) { static const uint8_t pm[4] = {0, 2, 4, 1}; id.percussive = a8 & 1; id.msb = pm[b8 & 3]; id.lsb = c8 & 1; }
            int flags = (int)(k.d % 4 == 0 ? 0 : (k.d % 4 == 1 ? OPNMIDI_Bank_Create : (k.d % 4 == 2 ? OPNMIDI_Bank_CreateRt : 0)));
            int r = opn2_getBank(d, &id, flags, &b);
            if(id.percussive > 1 || id.msb > 127 || id.lsb > 127) VCHECK(r == -1, "getBank accepted invalid id %u:%u:%u", id.percussive, id.msb, id.lsb);
            if(r == 0) handles[(unsigned)((id.percussive << 16) | (id.msb << 8) | id.lsb)] = b;
            break;
        }
        case F_getBankId: case F_removeBank: case F_getInstrument: case F_setInstrument: {
            if(handles.empty()) break;
            auto it = handles.begin(); std::advance(it, (long)((unsigned long long)k.a % handles.size()));
            OPN2_Bank b = it->second;
            if(k.fn == F_getBankId) { OPN2_BankId id; VCHECK(opn2_getBankId(d, &b, &id) == 0, "getBankId failed on a live handle"); }
            else if(k.fn == F_removeBank) { VCHECK(opn2_removeBank(d, &b) == 0, "removeBank failed on a live handle"); handles.erase(it); }
            else if(k.fn == F_getInstrument) { OPN2_Instrument in; int r = opn2_getInstrument(d, &b, (unsigned)k.b, &in); VCHECK(r == (((unsigned)k.b > 127) ? -1 : 0), "getInstrument(index %u) returned %d", (unsigned)k.b, r); }
            else {
                OPN2_Instrument in = make_ins((uint8_t)k.c, (uint8_t)k.d, (int)(short)k.c, (uint8_t)k.d, (uint16_t)k.c, (uint16_t)k.d, (uint8_t)k.d);
                if(k.d % 5 == 0) { unsigned s = (unsigned)k.c; uint8_t *p = (uint8_t *)&in.operators[0]; for(size_t i = 0; i < sizeof in.operators; i++) { s = s * 1664525u + 1013904223u; p[i] = (uint8_t)(s >> 16); } in.fbalg = (uint8_t)(s >> 8); in.lfosens = (uint8_t)s; }
                if(k.d % 7 == 0) in.inst_flags = OPNMIDI_Ins_IsBlank;
                if(k.d % 11 == 0) in.version = 1;
                int r = opn2_setInstrument(d, &b, (unsigned)k.b, &in);
                bool bad = (unsigned)k.b > 127 || in.version != 0;
                VCHECK(r == (bad ? -1 : 0), "setInstrument(index %u, version %d) returned %d", (unsigned)k.b, in.version, r);
            }
            break;
        }
        case F_iterBanks: { OPN2_Bank b; int r = opn2_getFirstBank(d, &b); size_t n = 0;
            if(r == 0) { OPN2_BankId id; if(opn2_getBankId(d, &b, &id) == 0) handles[(unsigned)((id.percussive << 16) | (id.msb << 8) | id.lsb)] = b; } // the first bank's handle can be used like any other
            while(r == 0 && n < 40000) { OPN2_BankId id; opn2_getBankId(d, &b, &id); r = opn2_getNextBank(d, &b); n++; } VCHECK(n < 40000, "bank iteration does not end"); break; }
        case F_setLfoEnabled: opn2_setLfoEnabled(d, ai); break;
        case F_getLfoEnabled: opn2_getLfoEnabled(d); break;
        case F_setLfoFrequency: opn2_setLfoFrequency(d, ai); break;
        case F_getLfoFrequency: opn2_getLfoFrequency(d); break;
        case F_setChipType: opn2_setChipType(d, ai); handles.size(); break;
        case F_getChipType: opn2_getChipType(d); break;
        case F_setScaleModulators: opn2_setScaleModulators(d, ai); break;
        case F_setFullRangeBrightness: opn2_setFullRangeBrightness(d, ai); break;
        case F_setAutoArpeggio: opn2_setAutoArpeggio(d, ai); break;
        case F_getAutoArpeggio: opn2_getAutoArpeggio(d); break;
        case F_setLoopEnabled: opn2_setLoopEnabled(d, ai); break;
        case F_setLoopCount: opn2_setLoopCount(d, ai); break;
        case F_setLoopHooksOnly: opn2_setLoopHooksOnly(d, ai); break;
        case F_setSoftPanEnabled: opn2_setSoftPanEnabled(d, ai); break;
        case F_setLogarithmicVolumes: opn2_setLogarithmicVolumes(d, ai); break;
        case F_setVolumeRangeModel: opn2_setVolumeRangeModel(d, ai); break;
        case F_getVolumeRangeModel: { int r = opn2_getVolumeRangeModel(d); VCHECK(r >= 0 && r < OPNMIDI_VolumeModel_Count, "getVolumeRangeModel reports %d", r); break; }
        case F_setChannelAllocMode: opn2_setChannelAllocMode(d, ai); break;
        case F_getChannelAllocMode: { int r = opn2_getChannelAllocMode(d); VCHECK(r >= -1 && r < OPNMIDI_ChanAlloc_Count, "getChannelAllocMode reports %d", r); break; }
        case F_openBankFile: case F_openBankData: {
            const std::string &blob = bank_pool()[(size_t)((unsigned long long)k.a % bank_pool().size())];
            int r;
            if(k.fn == F_openBankData) r = opn2_openBankData(d, blob.data(), (long)blob.size());
            else {
                std::string path = tmpdir + "/c03bank." + std::to_string((unsigned long long)k.a % bank_pool().size()) + ".wopn";
                if(k.b % 4 == 1) path = tmpdir + "/does-not-exist.wopn";
                else if(k.b % 4 == 2) path = "";
                else { FILE *f = fopen(path.c_str(), "wb"); if(f) { fwrite(blob.data(), 1, blob.size(), f); fclose(f); } }
                r = opn2_openBankFile(d, path.c_str());
            }
            VCHECK(r == 0 || r == -1, "bank load returned %d", r);
            if(r != 0) VCHECK(opn2_errorInfo(d)[0] != 0, "bank load failed without an error text");
            if(r == 0) handles.clear();
            break;
        }
        case F_names: { VCHECK(opn2_chipEmulatorName(d) != NULL, "chipEmulatorName NULL"); opn2_emulatorName(); opn2_linkedLibraryVersion(); opn2_linkedVersion(); opn2_errorString(); opn2_errorInfo(d); break; }
        case F_switchEmulator: {
            int r = opn2_switchEmulator(d, ai);
            bool known = ai >= 0 && ai <= 8;
            VCHECK(r == (known ? 0 : -1), "switchEmulator(%d) returned %d", ai, r);
            if(known) cur_emu = ai;
            break;
        }
        case F_setRunAtPcmRate: opn2_setRunAtPcmRate(d, ai); break;
        case F_reset: opn2_reset(d); break;
        case F_openFile: case F_openData: {
            const std::string &blob = music_pool()[(size_t)((unsigned long long)k.a % music_pool().size())];
            int r;
            if(k.fn == F_openData) r = opn2_openData(d, blob.data(), (unsigned long)blob.size());
            else {
                std::string path = tmpdir + "/c03mus." + std::to_string((unsigned long long)k.a % music_pool().size()) + ".mid";
                if(k.b % 4 == 1) path = tmpdir + "/does-not-exist.mid";
                else if(k.b % 4 == 2) path = "";
                else { FILE *f = fopen(path.c_str(), "wb"); if(f) { fwrite(blob.data(), 1, blob.size(), f); fclose(f); } }
                r = opn2_openFile(d, path.c_str());
            }
            VCHECK(r == 0 || r == -1, "music load returned %d", r);
            if(r != 0) VCHECK(opn2_errorInfo(d)[0] != 0, "music load failed without an error text");
            break;
        }
        case F_selectSongNum: opn2_selectSongNum(d, ai); break;
        case F_getSongsCount: opn2_getSongsCount(d); break;
        case F_times: opn2_totalTimeLength(d); opn2_loopStartTime(d); opn2_loopEndTime(d); opn2_positionTell(d); break;
        case F_positionSeek: { static const double v[] = {-1, 0, 1e-9, 1e-3, 0.5, 1, 60, 1e6, 1e300}; opn2_positionSeek(d, v[(size_t)((unsigned long long)k.a % 9)]); break; }
        case F_positionRewind: opn2_positionRewind(d); break;
        case F_setTempo: { static const double v[] = {-1, 0, 1e-9, 0.25, 1, 4, 1e6, 1e300}; opn2_setTempo(d, v[(size_t)((unsigned long long)k.a % 8)]); break; }
        case F_atEnd: opn2_atEnd(d); break;
        case F_trackCount: opn2_trackCount(d); break;
        case F_meta: { VCHECK(opn2_metaMusicTitle(d) != NULL, "metaMusicTitle NULL"); VCHECK(opn2_metaMusicCopyright(d) != NULL, "metaMusicCopyright NULL"); opn2_metaTrackTitleCount(d); opn2_metaMarkerCount(d); break; }
        case F_metaTrackTitle: { const char *t = opn2_metaTrackTitle(d, (size_t)k.a); VCHECK(t != NULL && strlen(t) < 100000, "metaTrackTitle(%lld) bad", k.a); break; }
        case F_metaMarker: { Opn2_MarkerEntry m = opn2_metaMarker(d, (size_t)k.a); VCHECK(m.label != NULL && strlen(m.label) < 100000, "metaMarker(%lld) bad label", k.a); break; }
        case F_setTrackOptions: { size_t tc = opn2_trackCount(d); int r = opn2_setTrackOptions(d, (size_t)k.a, (unsigned)k.b); if((size_t)k.a >= tc && ((unsigned)k.b & 3) != 0 && ((unsigned)k.b & 3) != 3) VCHECK(r == -1, "setTrackOptions(track %lld of %zu, opt %u) returned %d", k.a, tc, (unsigned)k.b, r); break; }
        case F_setChannelEnabled: { int r = opn2_setChannelEnabled(d, (size_t)k.a, bi); VCHECK(r == (((size_t)k.a >= 16) ? -1 : 0), "setChannelEnabled(%lld) returned %d", k.a, r); break; }
        case F_tickEvents: { static const double v[] = {0, 1e-6, 1e-3, 0.01, 0.5, 5}; static const double g[] = {1e-6, 1e-3, 1.0 / 44100, 0}; double t = opn2_tickEvents(d, v[(size_t)((unsigned long long)k.a % 6)], g[(size_t)((unsigned long long)k.b % 4)]); VCHECK(!(t < 0) , "tickEvents returned %g", t); break; }
        case F_play: case F_generate: case F_playFormat: case F_generateFormat: {
            long n = (long)k.a; if(n > 70000) n = 70000; if(n < -4) n = -4;
            double cost = cost_of(n > 0 ? n / 2 : 0);
            if(cost > budget) { info.skipped_audio++; break; }
            budget -= cost;
            bool fmt = (k.fn == F_playFormat || k.fn == F_generateFormat), playfn = (k.fn == F_play || k.fn == F_playFormat);
            int r;
            if(!fmt) {
                std::vector<short> buf((size_t)(n > 0 ? n : 0) + 1);
                r = playfn ? opn2_play(d, (int)n, buf.data()) : opn2_generate(d, (int)n, buf.data());
            } else {
                OPNMIDI_AudioFormat f; f.type = (OPNMIDI_SampleType)(int)((unsigned long long)k.b % 16); // every value representable in the enum type (0..15), 10..15 are not sample types
                static const unsigned cont[] = {1, 2, 4, 8, 3}; f.containerSize = cont[(size_t)((unsigned long long)k.c % 5)];
                unsigned stride = 1 + (unsigned)((unsigned long long)k.d % 3);
                f.sampleOffset = f.containerSize * 2 * stride;
                size_t frames = (size_t)(n > 0 ? n / 2 : 0);
                std::vector<uint8_t> buf(frames * f.sampleOffset + 16);
                r = playfn ? opn2_playFormat(d, (int)n, buf.data(), buf.data() + f.containerSize, &f) : opn2_generateFormat(d, (int)n, buf.data(), buf.data() + f.containerSize, &f);
            }
            long want = n < 0 ? 0 : n - n % 2;
            VCHECK(r >= 0 && r <= want, "%s(%ld) returned %d", fname[k.fn], n, r);
            if(n < 0) VCHECK(r == 0, "%s with negative count returned %d", fname[k.fn], r);
            break;
        }
        case F_panic: opn2_panic(d); break;
        case F_rt_resetState: opn2_rt_resetState(d); break;
        case F_rt_noteOn: { int r = opn2_rt_noteOn(d, a8, b8, c8); VCHECK(r == 0 || r == 1, "rt_noteOn returned %d", r); break; }
        case F_rt_noteOff: opn2_rt_noteOff(d, a8, b8); break;
        case F_rt_noteAfterTouch: opn2_rt_noteAfterTouch(d, a8, b8, c8); break;
        case F_rt_channelAfterTouch: opn2_rt_channelAfterTouch(d, a8, b8); break;
        case F_rt_controllerChange: opn2_rt_controllerChange(d, a8, b8, c8); break;
        case F_rt_patchChange: opn2_rt_patchChange(d, a8, b8); break;
        case F_rt_pitchBend: opn2_rt_pitchBend(d, a8, (OPN2_UInt16)k.b); break;
        case F_rt_pitchBendML: opn2_rt_pitchBendML(d, a8, b8, c8); break;
        case F_rt_bankChangeLSB: opn2_rt_bankChangeLSB(d, a8, b8); break;
        case F_rt_bankChangeMSB: opn2_rt_bankChangeMSB(d, a8, b8); break;
        case F_rt_bankChange: opn2_rt_bankChange(d, a8, (OPN2_SInt16)k.b); break;
        case F_rt_systemExclusive: {
            std::vector<uint8_t> m;
            if(k.a % 3 != 2) m = canned_sysex((int)((unsigned long long)k.b % 6));
            if(k.a % 3 == 1 && !m.empty()) m[(size_t)((unsigned long long)k.c % m.size())] = (uint8_t)k.d;
            if(k.a % 3 == 2) { unsigned s = (unsigned)k.b; size_t len = (size_t)((unsigned long long)k.c % 65); for(size_t i = 0; i < len; i++) { s = s * 1664525u + 1013904223u; m.push_back((uint8_t)(s >> 16)); } if(len > 1 && (k.d & 1)) { m[0] = 0xF0; m[len - 1] = 0xF7; } }
            std::vector<uint8_t> exact(m); // exact-size heap copy
            int r = opn2_rt_systemExclusive(d, exact.data(), exact.size());
            VCHECK(r == 0 || r == 1, "rt_systemExclusive returned %d", r);
            break;
        }
        case F_setHooks: {
            bool on = (k.b & 1) != 0;
            switch((unsigned long long)k.a % 5) {
            case 0: opn2_setRawEventHook(d, on ? h_raw : NULL, NULL); break;
            case 1: opn2_setNoteHook(d, on ? h_note : NULL, NULL); break;
            case 2: opn2_setDebugMessageHook(d, on ? h_dbg : NULL, NULL); break;
            case 3: opn2_setLoopStartHook(d, on ? h_loop : NULL, NULL); break;
            default: opn2_setLoopEndHook(d, on ? h_loop : NULL, NULL); break;
            }
            break;
        }
        case F_describeChannels: {
            size_t sz = (size_t)((unsigned long long)k.a % 700);
            std::vector<char> t(sz + 1, 'x'), at(sz + 1, 'y');
            // exact-size buffers: the call may write at most `sz` bytes into each
            std::vector<char> te(sz), ae(sz);
            int r = opn2_describeChannels(d, sz ? te.data() : NULL, sz ? ae.data() : NULL, sz);
            VCHECK(r == 0, "describeChannels returned %d", r);
            break;
        }
        case F_reopen: { I.close(); handles.clear(); I.open(kRates[(size_t)((unsigned long long)k.a % 9)]); VCHECK(I.dev, "opn2_init failed"); cur_emu = 0; cur_chips = 2; break; }
        }
    }
    I.close();
}

// ---------------------------------------------------------------- call construction shared by both engines
static Call mk(int fn, long long a, long long b, long long c, long long d) { Call k; k.fn = fn; k.a = a; k.b = b; k.c = c; k.d = d; return k; }
static const long long kInts[] = {INT_MIN, -2, -1, 0, 1, 2, 6, 7, 8, 9, 15, 16, 17, 31, 32, 33, 99, 100, 101, 126, 127, 128, 255, 256, 1022, 1024, 2047, 4097, 16383, 65535, 70000, INT_MAX};

#ifdef VERIF_FUZZ
extern "C" int LLVMFuzzerInitialize(int *argc, char ***argv) { return fuzz_init(argc, argv); }
static Case decode(const uint8_t *data, size_t size) {
    Bytes b(data, size); Case c; c.rate_idx = (int)b.u(0, 8);
    while(!b.empty() && c.calls.size() < 400) {
        int fn = (int)b.u(0, F_NFN - 1);
        long long v[4];
        for(int i = 0; i < 4; i++) { unsigned sel = b.u(0, 3); v[i] = sel == 0 ? kInts[b.u(0, 31)] : (sel == 1 ? (long long)b.u(0, 255) : (sel == 2 ? (long long)b.u(0, 127) : (long long)(int)b.u(0, 0xFFFFFFFFu))); }
        c.calls.push_back(mk(fn, v[0], v[1], v[2], v[3]));
    }
    return c;
}
extern "C" int LLVMFuzzerTestOneInput(const uint8_t *data, size_t size) {
    static bool inited = false;
    if(!inited) { inited = true; if(getenv("VERIF_TEXTCASE")) {} }
    Case c;
    // replay files written by the rapidcheck twin are text ("rate N\n..."); fuzz artifacts are raw bytes
    if(size > 5 && memcmp(data, "rate ", 5) == 0) c = deser(std::string((const char *)data, size)); else c = decode(data, size);
    Info info;
    arm_watchdog(120);
    try { run(c, info, "."); }
    catch(const Fail &f) { fprintf(stderr, "case:\n%s", ser(c).c_str()); fuzz_fail(f.msg); }
    Stats &st = ctx().stats;
    bool nt = info.groups.size() >= 3 && info.boundary;
    st.note_case_hash(fnv(data, size), nt, nt && st.samples.size() < 2 ? ser(c).substr(0, 1200) : "");
    st.label("groups_" + std::to_string(info.groups.size()));
    if(info.skipped_audio) st.label("audio_calls_skipped_by_budget", (uint64_t)info.skipped_audio);
    return 0;
}
#else
static rc::Gen<Call> genCall() {
    using namespace rc;
    auto val = gen::weightedOneOf<long long>({{4, gen::elementOf(std::vector<long long>(std::begin(kInts), std::end(kInts)))},
                                              {3, gen::map(rng<int>(0, 255), [](int v) { return (long long)v; })},
                                              {3, gen::map(rng<int>(0, 127), [](int v) { return (long long)v; })},
                                              {1, gen::map(rng<int>(INT_MIN, INT_MAX), [](int v) { return (long long)v; })}});
    // function weights: real-time + audio + setup churn dominate; everything is reachable
    std::vector<int> w;
    for(int f = 0; f < F_NFN; f++) {
        size_t wt = 2;
        if(f == F_rt_noteOn) wt = 20; else if(f == F_rt_controllerChange) wt = 10; else if(fgroup[f] == 2) wt = 4; else if(fgroup[f] == 5) wt = 5;
        else if(f == F_setNumChips || f == F_switchEmulator || f == F_openBankData || f == F_openData || f == F_tickEvents) wt = 5;
        else if(f == F_reopen) wt = 1;
        for(size_t r = 0; r < wt; r++) w.push_back(f);
    }
    return gen::map(gen::tuple(gen::elementOf(w), val, val, val, val),
                    [](std::tuple<int, long long, long long, long long, long long> t) { return mk(std::get<0>(t), std::get<1>(t), std::get<2>(t), std::get<3>(t), std::get<4>(t)); });
}
// second profile: dense real-time traffic on few channels/keys/programs (reaches voice stealing, arpeggio, evacuation, pedals)
// interleaved with the occasional setup/audio/hook call
static rc::Gen<Call> genCallRt() {
    using namespace rc;
    auto small = [](std::vector<long long> v) { return gen::elementOf(v); };
    auto rt = gen::weightedOneOf<Call>({
        {30, gen::map(gen::tuple(small({0, 0, 1, 9}), small({60, 61, 62, 63, 64, 65, 66, 67, 36, 38}), rng<int>(0, 127)), [](std::tuple<long long, long long, int> t) { return mk(F_rt_noteOn, std::get<0>(t), std::get<1>(t), std::get<2>(t), 0); })},
        {8, gen::map(gen::tuple(small({0, 0, 1, 9}), small({60, 61, 62, 63, 64, 65, 66, 67, 36, 38})), [](std::tuple<long long, long long> t) { return mk(F_rt_noteOff, std::get<0>(t), std::get<1>(t), 0, 0); })},
        {8, gen::map(gen::tuple(small({0, 0, 1, 9}), small({64, 64, 66, 123, 121, 120, 7, 11, 1, 65, 5, 74, 10}), small({0, 127, 64, 63})), [](std::tuple<long long, long long, long long> t) { return mk(F_rt_controllerChange, std::get<0>(t), std::get<1>(t), std::get<2>(t), 0); })},
        {4, gen::map(gen::tuple(small({0, 0, 1, 9}), small({0, 1, 2, 127})), [](std::tuple<long long, long long> t) { return mk(F_rt_patchChange, std::get<0>(t), std::get<1>(t), 0, 0); })},
        {3, gen::map(small({0, 1, 1, 1}), [](long long v) { return mk(F_setAutoArpeggio, v, 0, 0, 0); })},
        {3, gen::map(gen::tuple(small({0, 1, 2, 3, 4}), small({0, 1})), [](std::tuple<long long, long long> t) { return mk(F_setHooks, std::get<0>(t), std::get<1>(t), 0, 0); })},
        {5, gen::map(small({2, 16, 64, 200, 1024}), [](long long v) { return mk(F_generate, v, 0, 0, 0); })},
        {2, gen::map(small({1, 1, 2}), [](long long v) { return mk(F_setNumChips, v, 0, 0, 0); })},
        {1, gen::map(small({4, 2, 0, 5}), [](long long v) { return mk(F_switchEmulator, v, 0, 0, 0); })},
        {1, gen::map(small({-1, 0, 1, 2}), [](long long v) { return mk(F_setChannelAllocMode, v, 0, 0, 0); })},
        {1, gen::just(mk(F_panic, 0, 0, 0, 0))}, {1, gen::just(mk(F_rt_resetState, 0, 0, 0, 0))}, {1, gen::just(mk(F_describeChannels, 100, 0, 0, 0))},
        {2, genCall()},
    });
    return rt;
}
// third profile: bank-map churn (create / real-time create / lookup / remove / iterate / reserve / bank loads over ids that collide in the
// map's hash buckets, instrument reads and writes) interleaved with notes, audio and anything else
static rc::Gen<Call> genCallBank() {
    using namespace rc;
    auto any = rng<int>(0, 255);
    auto bank = gen::weightedOneOf<Call>({
        {30, gen::map(gen::tuple(any, any, any, rng<int>(0, 3)), [](std::tuple<int, int, int, int> t) { return mk(F_getBank, std::get<0>(t), std::get<1>(t), std::get<2>(t), 8 + std::get<3>(t)); })},   // pooled (colliding) ids, all four flag values
        {18, gen::map(any, [](int v) { return mk(F_removeBank, v, 0, 0, 0); })},
        {8, gen::just(mk(F_iterBanks, 0, 0, 0, 0))},
        {4, gen::map(gen::tuple(any, any), [](std::tuple<int, int> t) { return mk(F_getInstrument, std::get<0>(t), std::get<1>(t) % 130, 0, 0); })},
        {4, gen::map(gen::tuple(any, any, any, any), [](std::tuple<int, int, int, int> t) { return mk(F_setInstrument, std::get<0>(t), std::get<1>(t) % 130, std::get<2>(t), std::get<3>(t)); })},
        {3, gen::map(gen::elementOf(std::vector<long long>{0, 1, 2, 5, 17, 40}), [](long long v) { return mk(F_reserveBanks, v, 0, 0, 0); })},
        {2, gen::map(any, [](int v) { return mk(F_getBankId, v, 0, 0, 0); })},
        {2, gen::map(gen::elementOf(std::vector<long long>{0, 0, 1, 2}), [](long long v) { return mk(F_openBankData, v, 0, 0, 0); })},
        {4, gen::map(gen::tuple(gen::elementOf(std::vector<long long>{0, 9}), gen::elementOf(std::vector<long long>{60, 36, 64}), rng<int>(0, 127)), [](std::tuple<long long, long long, int> t) { return mk(F_rt_noteOn, std::get<0>(t), std::get<1>(t), std::get<2>(t), 0); })},
        {2, gen::map(gen::elementOf(std::vector<long long>{2, 64, 600}), [](long long v) { return mk(F_generate, v, 0, 0, 0); })},
        {3, genCall()},
    });
    return bank;
}
namespace rc { template <> struct Arbitrary<Call> { static Gen<Call> arbitrary() { return genCall(); } }; }
void showValue(const Call &k, std::ostream &os) { os << fname[k.fn] << "(" << k.a << "," << k.b << "," << k.c << "," << k.d << ")"; }

int main(int argc, char **argv) {
    parse_args(argc, argv);
    Ctx &c = ctx();
    if(!c.kv.count("cpuset")) c.cpu_budget_s = c.opt("budget", 40);
    std::string tmp = c.replay_dir;
    if(c.mode == "replay") return replay_main([&](const std::string &s) { Info info; run(deser(s), info, tmp); });
    int maxlen = (int)c.opt("maxlen", 150);
    pbt("c03_api_sequences", c.n, maxlen, [&](int ri, const std::vector<Call> &calls) {
        Case cs; cs.rate_idx = (ri < 0 ? -ri : ri) % 9; cs.calls = calls;
        std::string s = ser(cs);
        run_case(s, [&] {
            Info info; run(cs, info, tmp);
            Stats &st = ctx().stats;
            st.note_case(s, info.groups.size() >= 3 && info.boundary);
            st.label("groups_" + std::to_string(info.groups.size()));
            for(const Call &k : cs.calls) st.label(std::string("fn:") + fname[k.fn]);
            if(info.skipped_audio) st.label("audio_calls_skipped_by_budget", (uint64_t)info.skipped_audio);
        });
    });
    pbt("c03_rt_heavy_sequences", c.n, maxlen, [&]() {
        Case cs; cs.rate_idx = 0;
        cs.calls.push_back(mk(F_switchEmulator, 4, 0, 0, 0)); cs.calls.push_back(mk(F_setNumChips, 1, 0, 0, 0)); cs.calls.push_back(mk(F_openBankData, 0, 0, 0, 0));
        std::vector<Call> body = *rc::gen::container<std::vector<Call>>(genCallRt());
        cs.calls.insert(cs.calls.end(), body.begin(), body.end());
        std::string s = ser(cs);
        run_case(s, [&] {
            Info info; run(cs, info, tmp);
            Stats &st = ctx().stats;
            st.note_case(s, info.groups.size() >= 3 && info.boundary);
            st.label("profile:rt_heavy");
        });
    });
    pbt("c03_bank_heavy_sequences", c.n, maxlen, [&]() {
        Case cs; cs.rate_idx = 0;
        cs.calls.push_back(mk(F_switchEmulator, 4, 0, 0, 0)); cs.calls.push_back(mk(F_setNumChips, 1, 0, 0, 0)); if(*rng<int>(0, 1)) cs.calls.push_back(mk(F_openBankData, 0, 0, 0, 0));
        std::vector<Call> body = *rc::gen::container<std::vector<Call>>(genCallBank());
        cs.calls.insert(cs.calls.end(), body.begin(), body.end());
        std::string s = ser(cs);
        run_case(s, [&] {
            Info info; run(cs, info, tmp);
            Stats &st = ctx().stats;
            st.note_case(s, info.groups.size() >= 3 && info.boundary);
            st.label("profile:bank_heavy");
        });
    });
    return finish();
}
#endif
