// C10: programmed pitch = key + bend*range + instrument offset (in tune), monotone, bend fan-out, portamento end points.
// Engines: grid enumeration (keys x bends x ranges x offsets x chip family) and rapidcheck scenarios (bend fan-out, portamento);
// oracle: block/F-number pairs decoded from the register tap with the datasheet clock constants.
#include "common/ops.hpp"
#include "common/rc_util.hpp"
#include <cmath>
#include <map>
#include <set>

using namespace vf;

static const double kFM[2] = {7670454.0, 7987200.0}; // OPN2 (NTSC Mega Drive), OPNA master clocks

static double expect_hz(double p) { return 440.0 * std::pow(2.0, (p - 69.0) / 12.0); }
struct Pitch { bool valid = false; int block = 0, fnum = 0; int mul[4] = {-1, -1, -1, -1}; double hz = 0, step = 0; size_t chan = 0; };

// decodes the last frequency programmed on chip channel `c` among tap records [from, end)
static Pitch decode(size_t from, size_t c, int family) {
    Pitch p; p.chan = c;
    unsigned port = (unsigned)((c % 6) / 3), cc = (unsigned)(c % 3), chip = (unsigned)(c / 6);
    int hi = -1, lo = -1;
    TapState &t = tap();
    for(size_t i = from; i < t.log.size(); i++) {
        const TapRec &w = t.log[i];
        if(w.kind == 2 || w.chip != chip || w.port != port) continue;
        if(w.reg == 0xA4 + cc) hi = (int)w.val;
        else if(w.reg == 0xA0 + cc) lo = (int)w.val;
        else if(w.reg >= 0x30 && w.reg <= 0x3F && (w.reg & 3) == cc) p.mul[(w.reg - 0x30) / 4] = (int)w.val;
    }
    if(hi < 0 || lo < 0) return p;
    p.valid = true;
    p.block = (hi >> 3) & 7; p.fnum = ((hi & 7) << 8) | lo;
    p.step = std::ldexp(kFM[family] / (144.0 * 1048576.0), p.block - 1);
    p.hz = p.fnum * p.step;
    return p;
}
// all frequency pairs programmed on chip channel `c` among tap records [from, end) (a chip channel shared by several notes gets one pair per note)
static std::vector<Pitch> decode_all(size_t from, size_t c, int family) {
    std::vector<Pitch> v;
    unsigned port = (unsigned)((c % 6) / 3), cc = (unsigned)(c % 3), chip = (unsigned)(c / 6);
    int hi = -1; TapState &t = tap();
    for(size_t i = from; i < t.log.size(); i++) {
        const TapRec &w = t.log[i];
        if(w.kind == 2 || w.chip != chip || w.port != port) continue;
        if(w.reg == 0xA4 + cc) hi = (int)w.val;
        else if(w.reg == 0xA0 + cc && hi >= 0) {
            Pitch p; p.valid = true; p.chan = c; p.block = (hi >> 3) & 7; p.fnum = ((hi & 7) << 8) | (int)w.val;
            p.step = std::ldexp(kFM[family] / (144.0 * 1048576.0), p.block - 1); p.hz = p.fnum * p.step; v.push_back(p);
        }
    }
    return v;
}
// what the chip holds now: the last complete (A4, A0) pair written for each chip channel, whenever that was
static std::map<unsigned, std::pair<int, int>> g_fshadow; static std::map<unsigned, int> g_fpending, g_mshadow; static size_t g_fpos = 0;
static void fshadow_reset() { g_fshadow.clear(); g_fpending.clear(); g_mshadow.clear(); g_fpos = 0; }
static void fshadow_absorb() {
    TapState &t = tap(); if(g_fpos > t.log.size()) g_fpos = 0;
    for(; g_fpos < t.log.size(); g_fpos++) {
        const TapRec &w = t.log[g_fpos]; if(w.kind == 2) continue;
        if(w.reg >= 0x30 && w.reg <= 0x3F) g_mshadow[((unsigned)w.chip << 16) | ((unsigned)w.port << 8) | w.reg] = (int)w.val;
        else if(w.reg >= 0xA4 && w.reg <= 0xA6) g_fpending[((unsigned)w.chip << 16) | ((unsigned)w.port << 8) | (w.reg - 0xA4)] = (int)w.val;
        else if(w.reg >= 0xA0 && w.reg <= 0xA2) { unsigned k = ((unsigned)w.chip << 16) | ((unsigned)w.port << 8) | (w.reg - 0xA0); auto it = g_fpending.find(k); if(it != g_fpending.end()) g_fshadow[k] = {it->second, (int)w.val}; }
    }
}
// frequencies to judge for chip channel c after a call: the pairs written during the call or, when the call wrote none (nothing to change), the pair the chip holds
static std::vector<Pitch> written_or_held(size_t from, size_t c, int family) {
    std::vector<Pitch> v = decode_all(from, c, family);
    if(!v.empty()) return v;
    fshadow_absorb();
    unsigned port = (unsigned)((c % 6) / 3), cc = (unsigned)(c % 3), chip = (unsigned)(c / 6);
    auto it = g_fshadow.find((chip << 16) | (port << 8) | cc);
    if(it != g_fshadow.end()) { Pitch p; p.valid = true; p.chan = c; p.block = (it->second.first >> 3) & 7; p.fnum = ((it->second.first & 7) << 8) | it->second.second; p.step = std::ldexp(kFM[family] / (144.0 * 1048576.0), p.block - 1); p.hz = p.fnum * p.step; v.push_back(p); }
    return v;
}
static void judge_any(const std::vector<Pitch> &v, double pp, const char *ctx_) {
    VCHECK(!v.empty(), "%s: no frequency was ever written for the chip channel of a sounding key-down note", ctx_);
    double f = expect_hz(pp); std::string got;
    for(const Pitch &p : v) { if(p.hz >= f - p.step && p.hz <= f + p.step) return; got += fmt("%.2f ", p.hz); }
    VCHECK(false, "%s: none of the frequencies written (%s Hz) denotes the expected %.3f Hz", ctx_, got.c_str(), f);
}
// channels that received a key-on (0x28, 0xF0+code) in [from,end)
static std::vector<size_t> keyed_in(size_t from) {
    std::vector<size_t> v; TapState &t = tap();
    for(size_t i = from; i < t.log.size(); i++) { const TapRec &w = t.log[i]; if(w.kind != 2 && w.reg == 0x28 && w.port == 0 && (w.val & 0xF0)) { int c = chan_from_code(w.val); if(c >= 0) v.push_back((size_t)w.chip * 6 + (size_t)c); } }
    return v;
}

struct Rig {
    Inst I; int family = 0; OPN2_Bank mel, perc;
    void start(int fam) {
        family = fam;
        tap_install(); tap().log.clear(); fshadow_reset();
        I.open(8000);
        opn2_switchEmulator(I.dev, fam ? EMU_NP2 : EMU_GENS); opn2_setNumChips(I.dev, 1);
        VCHECK(api_get_bank(I.dev, 0, 0, 0, &mel) && api_get_bank(I.dev, 1, 0, 0, &perc), "bank create failed");
        opn2_setChipType(I.dev, fam);
        VCHECK(opn2_getChipType(I.dev) == fam, "chip family %d not obtained", fam);
    }
    void set_melodic(int prog, int offset) { OPN2_Instrument in = make_ins(1, 1, offset, 0, 40000, 10); VCHECK(opn2_setInstrument(I.dev, &mel, (unsigned)prog, &in) == 0, "setInstrument"); }
    void set_drum(int key, int offset, int drumkey) { OPN2_Instrument in = make_ins(1, 2, offset, (uint8_t)drumkey, 40000, 10); VCHECK(opn2_setInstrument(I.dev, &perc, (unsigned)key, &in) == 0, "setInstrument"); }
    void bend_range(int ch, int msb, int lsb) {
        opn2_rt_controllerChange(I.dev, (OPN2_UInt8)ch, 101, 0); opn2_rt_controllerChange(I.dev, (OPN2_UInt8)ch, 100, 0);
        opn2_rt_controllerChange(I.dev, (OPN2_UInt8)ch, 6, (OPN2_UInt8)msb); opn2_rt_controllerChange(I.dev, (OPN2_UInt8)ch, 38, (OPN2_UInt8)lsb);
    }
};

// p-interval allowed for a bend: RPN 0 LSB read as 1/128 semitone (what the code does) or as cents (MIDI RP-018); both accepted
static void p_interval(double base, int bend, int msb, int lsb, double &lo, double &hi) {
    double a = base + bend * (msb + lsb / 128.0) / 8192.0, b = base + bend * (msb + lsb / 100.0) / 8192.0;
    lo = std::min(a, b); hi = std::max(a, b);
}
static void judge(const Pitch &pt, double plo, double phi, const char *ctx_) {
    VCHECK(pt.valid, "no frequency pair was written (%s)", ctx_);
    double flo = expect_hz(plo), fhi = expect_hz(phi);
    VCHECK(pt.hz >= flo - pt.step && pt.hz <= fhi + pt.step, "block %d F-number %d denotes %.3f Hz, expected %.3f..%.3f Hz (+-%.3f step) (%s)", pt.block, pt.fnum, pt.hz, flo, fhi, pt.step, ctx_);
}

struct Acc { uint64_t points = 0, nontrivial = 0, skipped_high = 0; std::vector<std::string> samples; };

// one configuration line: fixed (family, offset, range, percussion) sweep keys x bends; also checks monotonicity in p
static void sweep(Rig &R, Acc &acc, int offset, int msb, int lsb, bool perc, const std::vector<int> &keys, const std::vector<int> &bends) {
    int ch = perc ? 9 : 0;
    opn2_rt_resetState(R.I.dev);
    R.bend_range(ch, msb, lsb);
    if(!perc) R.set_melodic(0, offset);
    std::vector<std::pair<double, double>> line; // (p_lo, hz) for monotonicity (only when lsb == 0: p exact)
    for(int key : keys) {
        int drumkey = perc ? ((key * 7 + 13) % 128) : 0;
        if(perc) R.set_drum(key, offset, drumkey);
        int tone = perc ? (drumkey ? drumkey : key) : key;
        opn2_rt_pitchBend(R.I.dev, (OPN2_UInt8)ch, 8192);
        fshadow_absorb(); tap().log.clear(); g_fpos = 0;
        int r = opn2_rt_noteOn(R.I.dev, (OPN2_UInt8)ch, (OPN2_UInt8)key, 100);
        VCHECK(r == 1, "note-on key %d rejected", key);
        std::vector<size_t> kc = keyed_in(0);
        VCHECK(kc.size() >= 1, "note-on wrote no key-on");
        size_t c = kc.back();
        for(int bend14 : bends) {
            size_t from = 0;
            if(bend14 != 8192 || true) { fshadow_absorb(); tap().log.clear(); g_fpos = 0; opn2_rt_pitchBend(R.I.dev, (OPN2_UInt8)ch, (OPN2_UInt16)bend14); }
            Pitch pt = decode(from, c, R.family);
            if(!pt.valid) { std::vector<Pitch> held = written_or_held(from, c, R.family); if(!held.empty()) pt = held.back(); } // nothing written: the bend changed nothing, judge what the chip holds
            double plo, phi; p_interval(tone + offset, bend14 - 8192, msb, lsb, plo, phi);
            std::string cx = fmt("family=%d %s key=%d tone=%d offset=%d bend=%d range=%d.%d", R.family, perc ? "perc" : "mel", key, tone, offset, bend14 - 8192, msb, lsb);
            if(expect_hz(phi) >= 6600.0 || expect_hz(plo) < 8.0) { acc.skipped_high++; continue; } // outside the chip's native range
            judge(pt, plo, phi, cx.c_str());
            int want_mul = 0x01; // make_ins(): DT/MUL byte of every operator
            { fshadow_absorb(); unsigned port = (unsigned)((c % 6) / 3), cc = (unsigned)(c % 3), chip = (unsigned)(c / 6); for(int k = 0; k < 4; k++) if(pt.mul[k] < 0) { auto it = g_mshadow.find((chip << 16) | (port << 8) | (0x30 + 4 * (unsigned)k + cc)); if(it != g_mshadow.end()) pt.mul[k] = it->second; } } // registers not rewritten in this call keep what they had
            for(int k = 0; k < 4; k++) VCHECK(pt.mul[k] == want_mul, "operator %d multiplier register is 0x%02X inside the native range, instrument has 0x%02X (%s)", k, pt.mul[k], want_mul, cx.c_str());
            acc.points++;
            bool nt = (bend14 != 8192 && msb + lsb > 0) || pt.block >= 1;
            if(nt) { acc.nontrivial++; if(acc.samples.size() < 3 && (acc.samples.empty() || acc.points % 4099 == 5)) acc.samples.push_back(cx + fmt(" -> block %d fnum %d = %.2f Hz", pt.block, pt.fnum, pt.hz)); }
            if(lsb == 0) line.push_back({plo, pt.hz});
        }
        opn2_rt_noteOff(R.I.dev, (OPN2_UInt8)ch, (OPN2_UInt8)key);
        if(perc) R.I.advance_ms(40, 8000);
    }
    std::sort(line.begin(), line.end());
    for(size_t i = 1; i < line.size(); i++)
        if(line[i].first > line[i - 1].first) VCHECK(line[i].second >= line[i - 1].second, "frequency is not monotone in pitch: p=%.4f -> %.3f Hz but p=%.4f -> %.3f Hz (family %d offset %d)", line[i - 1].first, line[i - 1].second, line[i].first, line[i].second, R.family, offset);
}

static void run_grid(bool full, long shard, long shards, Acc &acc) {
    std::vector<int> keys_all, keys_thin = {0, 1, 11, 12, 23, 24, 35, 36, 47, 48, 59, 60, 61, 69, 71, 72, 83, 84, 95, 96, 107, 108, 119, 120, 126, 127};
    for(int k = 0; k < 128; k++) keys_all.push_back(k);
    std::vector<int> bends_all, bends64, bend0 = {8192};
    for(int b = 0; b < 16384; b++) bends_all.push_back(b);
    for(int i = 0; i < 64; i++) bends64.push_back(i == 63 ? 16383 : i * 260);
    bends64.push_back(8192); bends64.push_back(8191); bends64.push_back(8193);
    std::vector<int> offsets = {-24, -12, -1, 0, 1, 12, 24, 7, -60, 60};
    long idx = 0;
    for(int fam = 0; fam < 2; fam++) {
        Rig R; R.start(fam);
        for(int off : offsets) for(int perc = 0; perc < 2; perc++) {
            if((idx++ % shards) != shard) continue;
            arm_watchdog(3600);
            // integer keys, no bend: exhaustive
            sweep(R, acc, off, 2, 0, perc != 0, keys_all, bend0);
            // all keys x 64 bend values x ranges
            for(int msb : {0, 1, 2, 12, 24}) for(int lsb : {0, 50, 99}) {
                if(!full && !(lsb == 0 || msb == 2)) continue;
                sweep(R, acc, off, msb, lsb, perc != 0, keys_all, bends64);
            }
            // all 16384 bend values on a thinned key set
            if(full) { for(int msb : {2, 12, 24}) sweep(R, acc, off, msb, 0, perc != 0, keys_thin, bends_all); }
            else if(off == 0 || off == -1) sweep(R, acc, off, 2, 0, perc != 0, {60, 0, 127, 96}, bends_all);
        }
    }
}

// ---------------------------------------------------------------- scenarios (rapidcheck)
struct Scn { int family = 0; int msb = 2; int offset = 0; std::vector<Op> ops; int kind = 0; /*0 fan-out, 1 portamento*/ int porta = 0; };
static std::string ser(const Scn &s) { std::ostringstream o; o << "scn " << s.kind << " " << s.family << " " << s.msb << " " << s.offset << " " << s.porta << "\n" << ser_ops(s.ops); return o.str(); }
static Scn deser(const std::string &t) { Scn s; std::istringstream in(t); std::string w; in >> w >> s.kind >> s.family >> s.msb >> s.offset >> s.porta; s.ops = deser_ops(in); return s; }

struct SInfo { unsigned fanouts = 0, glides = 0, starts = 0; bool held_seen = false; };

static void run_scenario(const Scn &s, SInfo &info) {
    fshadow_reset();
    World W; W.start(8000, s.family ? EMU_NP2 : EMU_GENS, 2);
    opn2_setChipType(W.I.dev, s.family);
    install_default_banks(W.I.dev, 40000, 10);
    { OPN2_Bank b; if(api_get_bank(W.I.dev, 0, 0, 0, &b, 0)) { OPN2_Instrument in = make_ins(1, 1, s.offset, 0, 40000, 10); opn2_setInstrument(W.I.dev, &b, 0, &in); } }
    Rig rr; // only for bend_range helper semantics
    auto set_range = [&](int ch) { opn2_rt_controllerChange(W.I.dev, (OPN2_UInt8)ch, 101, 0); opn2_rt_controllerChange(W.I.dev, (OPN2_UInt8)ch, 100, 0); opn2_rt_controllerChange(W.I.dev, (OPN2_UInt8)ch, 6, (OPN2_UInt8)s.msb); opn2_rt_controllerChange(W.I.dev, (OPN2_UInt8)ch, 38, 0); };
    set_range(0); set_range(1);
    if(s.kind == 1) { for(int ch = 0; ch < 2; ch++) { opn2_rt_controllerChange(W.I.dev, (OPN2_UInt8)ch, 5, (OPN2_UInt8)s.porta); opn2_rt_controllerChange(W.I.dev, (OPN2_UInt8)ch, 65, 127); } }
    int bend[2] = {0, 0}; int range[2] = {s.msb, s.msb};
    std::map<std::pair<int, int>, double> glide_from; // (ch,key) -> start tone of the glide
    int last_key[2] = {-1, -1};
    for(size_t i = 0; i < s.ops.size(); i++) {
        const Op &p = s.ops[i];
        Snapshot pre = take_snapshot(W.I);
        size_t from = tap().log.size();
        if(p.kind == O_NOTEON && s.kind == 1 && p.c > 0) { if(last_key[p.a] >= 0) glide_from[{p.a, p.b}] = last_key[p.a]; else glide_from.erase({p.a, p.b}); last_key[p.a] = p.b; }
        if(p.kind == O_NOTEOFF || (p.kind == O_NOTEON && p.c == 0)) glide_from.erase({p.a, p.b});
        if(p.kind == O_CC && p.b == 6) { opn2_rt_controllerChange(W.I.dev, (OPN2_UInt8)p.a, 101, 0); opn2_rt_controllerChange(W.I.dev, (OPN2_UInt8)p.a, 100, 0); range[p.a] = p.c; } // bend range change (RPN 0): takes effect at the next re-pitch
        W.apply(p);
        if(p.kind == O_CC && p.b == 6) { opn2_rt_controllerChange(W.I.dev, (OPN2_UInt8)p.a, 38, 0); W.drain_tap(); }
        if(p.kind == O_NOTEON && s.kind == 1 && p.c > 0 && W.last_ret == 1) {
            // portamento start point: the note is keyed on at the tone of the channel's previous note-on (its own tone when there was none)
            Snapshot post = take_snapshot(W.I);
            for(size_t c = 0; c < post.nchan; c++) for(const SnapUser &u : post.users[c]) if((int)u.midch == p.a && (int)u.note == p.b && u.sustained == 0 && post.users[c].size() == 1) {
                double start = glide_from.count({p.a, p.b}) ? glide_from[{p.a, p.b}] : (double)p.b;
                double off = (W.I.play()->m_midiChannels[(size_t)p.a].patch == 0) ? s.offset : 0;
                double pp = start + off + bend[p.a] * (double)range[p.a] / 8192.0;
                if(expect_hz(pp) >= 6600.0) continue;
                std::vector<Pitch> w = decode_all(from, c, s.family);
                if(w.empty()) continue; // nothing written for this chip channel in this call: it was not (re)started here
                std::string cx = fmt("portamento start point, step %zu: ch %d key %d (previous note-on key %.0f) on chip channel %zu", i + 1, p.a, p.b, start, c);
                std::vector<Pitch> first(1, w[0]);
                judge_any(first, pp, cx.c_str());
                info.starts++;
            }
        }
        if(p.kind == O_BEND) {
            bend[p.a] = p.b - 8192;
            info.fanouts++;
            // every chip channel whose user is key-down on that MIDI channel is re-pitched in this call; pedal-held ones are not
            for(size_t c = 0; c < pre.nchan; c++) for(const SnapUser &u : pre.users[c]) {
                if((int)u.midch != p.a) continue;
                Pitch pt = decode(from, c, s.family);
                if(u.sustained == 0) {
                    if(s.kind == 1 && glide_from.count({p.a, (int)u.note})) continue; // gliding notes are judged below
                    double tone = u.note + (W.I.play()->m_midiChannels[u.midch].patch == 0 ? s.offset : 0);
                    double pp = tone + bend[p.a] * (double)range[p.a] / 8192.0;
                    if(expect_hz(pp) >= 6600.0) continue;
                    std::string cx = fmt("bend fan-out step %zu: ch %d key %u bend %d range %d on chip channel %zu", i + 1, p.a, u.note, bend[p.a], range[p.a], c);
                    judge_any(written_or_held(from, c, s.family), pp, cx.c_str());
                } else {
                    info.held_seen = true; (void)pt; // the statement speaks of notes whose key is still down; what happens to pedal-held ones is left open
                }
            }
        }
        if(p.kind == O_ADVANCE && s.kind == 1) {
            // every re-pitch of a gliding note stays between its start and end tone; after enough time it sits on the end tone
            Snapshot now = take_snapshot(W.I);
            for(auto it = glide_from.begin(); it != glide_from.end(); ++it) {
                int ch = it->first.first, key = it->first.second; double start = it->second;
                for(size_t c = 0; c < now.nchan; c++) for(const SnapUser &u : now.users[c]) if((int)u.midch == ch && (int)u.note == key && u.sustained == 0) {
                    double off = (W.I.play()->m_midiChannels[(size_t)ch].patch == 0) ? s.offset : 0;
                    double bshift = bend[ch] * (double)range[ch] / 8192.0;
                    double lo = std::min(start, (double)key) + off + bshift, hi = std::max(start, (double)key) + off + bshift;
                    if(expect_hz(hi) >= 6600.0) continue;
                    // all pairs written for this channel during the advance
                    unsigned port = (unsigned)((c % 6) / 3), cc = (unsigned)(c % 3), chip = (unsigned)(c / 6); int hi8 = -1;
                    for(size_t k = from; k < tap().log.size(); k++) {
                        const TapRec &w = tap().log[k];
                        if(w.kind == 2 || w.chip != chip || w.port != port) continue;
                        if(w.reg == 0xA4 + cc) hi8 = (int)w.val;
                        else if(w.reg == 0xA0 + cc && hi8 >= 0) {
                            int block = (hi8 >> 3) & 7, fnum = ((hi8 & 7) << 8) | (int)w.val;
                            double step = std::ldexp(kFM[s.family] / (144.0 * 1048576.0), block - 1), hz = fnum * step;
                            VCHECK(hz >= expect_hz(lo) - step && hz <= expect_hz(hi) + step, "glide step %zu: ch %d key %d (from %.0f) re-pitched to %.2f Hz outside %.2f..%.2f Hz", i + 1, ch, key, start, hz, expect_hz(lo), expect_hz(hi));
                            info.glides++;
                        }
                    }
                }
            }
        }
    }
    if(s.kind == 1) {
        // let every glide finish (slowest generated rate 350*2^-3.1 = 41 semitones/s; 127 semitones need 3.1 s), then probe each held key with a zero bend message
        W.advance_ms(4000);
        for(int ch = 0; ch < 2; ch++) {
            Snapshot pre = take_snapshot(W.I);
            size_t from = tap().log.size();
            opn2_rt_pitchBend(W.I.dev, (OPN2_UInt8)ch, (OPN2_UInt16)(bend[ch] + 8192)); W.drain_tap();
            for(size_t c = 0; c < pre.nchan; c++) for(const SnapUser &u : pre.users[c]) if((int)u.midch == ch && u.sustained == 0) {
                Pitch pt = decode(from, c, s.family);
                double off = (W.I.play()->m_midiChannels[(size_t)ch].patch == 0) ? s.offset : 0;
                double pp = u.note + off + bend[ch] * (double)range[ch] / 8192.0;
                if(expect_hz(pp) >= 6600.0) continue;
                std::string cx = fmt("portamento end point: ch %d key %u on chip channel %zu", ch, u.note, c);
                (void)pt; judge_any(decode_all(from, c, s.family), pp, cx.c_str());
            }
        }
    }
}

static rc::Gen<std::vector<Op>> genScnOps(int kind) {
    using namespace rc;
    auto op = gen::map(gen::tuple(rng<int>(0, 19), rng<int>(0, 1000), rng<int>(0, 1000)), [kind](std::tuple<int, int, int> t) {
        int k = std::get<0>(t), a = std::get<1>(t), b = std::get<2>(t);
        int ch = a % 2; static const int edge[] = {0, 1, 2, 12, 108, 120, 126, 127}; int key = (kind == 1 && b % 6 == 0) ? edge[(b / 6) % 8] : 36 + (b % 49);
        if(k < 8) return Op{O_NOTEON, ch, key, 1 + a % 127};
        if(k < 11) return Op{O_NOTEOFF, ch, key, 0};
        if(k < 15) return Op{O_BEND, ch, (b % 5 == 0) ? 8192 : (b * 131) % 16384, 0};
        if(k < 17) return Op{O_CC, ch, 64, (b & 1) ? 127 : 0};
        if(kind == 0 && k == 17) { static const int rg[] = {0, 1, 2, 7, 12, 24}; return Op{O_CC, ch, 6, rg[b % 6]}; }
        if(kind == 1) { static const int ms[] = {5, 20, 60, 200}; return Op{O_ADVANCE, ms[b % 4], 0, 0}; }
        return Op{O_ADVANCE, 10, 0, 0};
    });
    return gen::container<std::vector<Op>>(op);
}
// keeps the history within polyphony (a chip channel shared by several notes can only sound one of their pitches):
// note-ons that could push the number of occupied chip channels beyond channels-1 are dropped (conservative count)
static std::vector<Op> within_polyphony(const std::vector<Op> &in, size_t limit) {
    std::vector<Op> out; std::set<std::pair<int, int>> down; size_t held[2] = {0, 0}; bool pedal[2] = {false, false};
    for(const Op &p : in) {
        if(p.kind == O_NOTEON && p.c > 0) {
            bool was = down.count({p.a, p.b}) != 0;
            size_t occ = down.size() + held[0] + held[1] + ((was && pedal[p.a]) ? 1 : 0) + (was ? 0 : 1);
            if(occ > limit) continue;
            if(was && pedal[p.a]) held[p.a]++;
            down.insert({p.a, p.b});
        } else if(p.kind == O_NOTEOFF || (p.kind == O_NOTEON && p.c == 0)) {
            if(down.erase({p.a, p.b}) && pedal[p.a]) held[p.a]++;
        } else if(p.kind == O_CC && p.b == 64) { pedal[p.a] = p.c >= 64; if(!pedal[p.a]) held[p.a] = 0; }
        out.push_back(p);
    }
    return out;
}
namespace vf { void showValue(const Op &p, std::ostream &os) { os << kOpName[p.kind] << "(" << p.a << "," << p.b << "," << p.c << ")"; } }

// ---------------------------------------------------------------- vibrato (modulation wheel): the offset it adds to p stays within wheel x depth,
// touches only its own MIDI channel, and disappears when the wheel returns to 0
struct Vib { int family = 0, offset = 0, keyA = 60, keyB = 64, wheel = 127, bend = 8192; std::vector<int> steps; };
static std::string ser_vib(const Vib &v) { std::ostringstream o; o << "vib " << v.family << " " << v.offset << " " << v.keyA << " " << v.keyB << " " << v.wheel << " " << v.bend << " " << v.steps.size(); for(int x : v.steps) o << " " << x; o << "\n"; return o.str(); }
static Vib deser_vib(const std::string &s) { Vib v; std::istringstream in(s); std::string w; size_t n = 0; in >> w >> v.family >> v.offset >> v.keyA >> v.keyB >> v.wheel >> v.bend >> n; for(size_t i = 0; i < n; i++) { int x; in >> x; v.steps.push_back(x); } return v; }
static size_t chip_channel_of(const Inst &I, unsigned midch, unsigned key) {
    Snapshot sn = take_snapshot(I);
    for(size_t c = 0; c < sn.users.size(); c++) for(const SnapUser &u : sn.users[c]) if(u.midch == midch && u.note == key) return c;
    return (size_t)-1;
}
static unsigned run_vibrato(const Vib &v) {
    Rig R; R.start(v.family); R.set_melodic(0, v.offset);
    OPN2_MIDIPlayer *d = R.I.dev; unsigned off_centre = 0;
    R.bend_range(0, 2, 0); R.bend_range(1, 2, 0);
    opn2_rt_pitchBend(d, 0, (OPN2_UInt16)v.bend); opn2_rt_pitchBend(d, 1, (OPN2_UInt16)v.bend);
    VCHECK(opn2_rt_noteOn(d, 0, (OPN2_UInt8)v.keyA, 100) == 1 && opn2_rt_noteOn(d, 1, (OPN2_UInt8)v.keyB, 100) == 1, "note rejected");
    size_t ca = chip_channel_of(R.I, 0, (unsigned)v.keyA), cb = chip_channel_of(R.I, 1, (unsigned)v.keyB);
    VCHECK(ca != (size_t)-1 && cb != (size_t)-1 && ca != cb, "notes not placed");
    double bendsemi = (v.bend - 8192) * 2.0 / 8192.0, pa = v.keyA + v.offset + bendsemi, pb = v.keyB + v.offset + bendsemi;
    if(expect_hz(pa + 1) >= 6600 || expect_hz(pb + 1) >= 6600 || expect_hz(pa - 1) < 8 || expect_hz(pb - 1) < 8) return 0; // outside the native range
    opn2_rt_controllerChange(d, 0, 1, (OPN2_UInt8)v.wheel);   // the wheel of channel 0 only
    double depth = std::fabs(R.I.play()->m_midiChannels[0].vibdepth) * v.wheel; // semitones: wheel value x the channel's vibrato depth
    VCHECK(depth <= 1.0, "default vibrato depth of %.3f semitones at wheel %d", depth, v.wheel);
    std::vector<short> buf;
    auto held = [&](size_t c) { fshadow_absorb(); std::vector<Pitch> w = written_or_held(tap().log.size(), c, v.family); VCHECK(!w.empty(), "no frequency held for chip channel %zu", c); return w.back(); };
    for(size_t i = 0; i < v.steps.size(); i++) {
        int n = v.steps[i] * 8; buf.resize((size_t)n * 2); opn2_generate(d, n * 2, buf.data());
        Pitch a = held(ca), b = held(cb);
        VCHECK(a.hz >= expect_hz(pa - depth) - a.step && a.hz <= expect_hz(pa + depth) + a.step, "step %zu: with the wheel at %d the note sounds at %.3f Hz, outside %.3f..%.3f Hz (key + offset + bend +- %.3f semitones of vibrato)", i, v.wheel, a.hz, expect_hz(pa - depth), expect_hz(pa + depth), depth);
        VCHECK(b.hz >= expect_hz(pb) - b.step && b.hz <= expect_hz(pb) + b.step, "step %zu: the note of the channel whose wheel is at 0 sounds at %.3f Hz instead of %.3f Hz", i, b.hz, expect_hz(pb));
        if(!(a.hz >= expect_hz(pa) - a.step && a.hz <= expect_hz(pa) + a.step)) off_centre++;
    }
    // wheel back to 0: the next re-pitch (a pitch-bend message re-pitches every key-down note of its channel) carries no vibrato offset any more
    // (the statement speaks about what is written when a note is re-pitched; it does not demand a re-pitch at the moment the wheel moves)
    opn2_rt_controllerChange(d, 0, 1, 0);
    buf.resize(1024); opn2_generate(d, 512, buf.data());
    opn2_rt_pitchBend(d, 0, (OPN2_UInt16)(v.bend == 8192 ? 8193 : v.bend - 1)); opn2_rt_pitchBend(d, 0, (OPN2_UInt16)v.bend);
    opn2_generate(d, 512, buf.data());
    Pitch a = held(ca);
    VCHECK(a.hz >= expect_hz(pa) - a.step && a.hz <= expect_hz(pa) + a.step, "after the wheel returned to 0 the note sounds at %.3f Hz instead of %.3f Hz", a.hz, expect_hz(pa));
    return off_centre;
}

int main(int argc, char **argv) {
    parse_args(argc, argv);
    Ctx &c = ctx();
    if(c.mode == "replay") return replay_main([&](const std::string &s) {
        if(s.rfind("scn", 0) == 0) { SInfo si; run_scenario(deser(s), si); }
        else if(s.rfind("vib", 0) == 0) run_vibrato(deser_vib(s));
        else { Acc acc; long sh = 0, shs = 1; char g[16] = "quick"; sscanf(s.c_str(), "grid %15s %ld %ld", g, &sh, &shs); run_grid(std::string(g) == "full", sh, shs, acc); }
    });
    if(c.mode == "grid") {
        Acc acc; bool full = c.opts("grid", "quick") == "full";
        try { run_grid(full, c.shard, c.shards, acc); }
        catch(const Fail &f) { c.failures++; save_failing_case(fmt("grid %s %ld %ld\n", full ? "full" : "quick", c.shard, c.shards), f.msg); }
        Stats &st = c.stats; st.evaluations = acc.points; st.nontrivial_total = acc.nontrivial; st.distinct_by_construction = acc.nontrivial; st.samples = acc.samples;
        st.num("points_above_native_range_skipped", (double)acc.skipped_high);
        st.notes.push_back("integer-key sub-grid (all 128 keys x 10 offsets x 2 families x melodic/percussion, no bend) is enumerated completely");
        return finish();
    }
    pbt("c10_vibrato", c.n / 4 + 1, 60, []() {
        Vib v; v.family = *rng<int>(0, 1); v.offset = *rc::gen::element(0, 0, -12, 7); v.keyA = *rng<int>(30, 90); v.keyB = *rng<int>(30, 90); v.wheel = *rc::gen::weightedOneOf<int>({{2, rc::gen::just(127)}, {2, rng<int>(1, 127)}});
        v.bend = *rc::gen::element(8192, 8192, 0, 12000); v.steps = *rc::gen::container<std::vector<int>>(rc::gen::element(3, 7, 11, 20, 40, 64));
        std::string t = ser_vib(v);
        run_case(t, [&] { unsigned dev = run_vibrato(v); ctx().stats.note_case(t, dev > 0); ctx().stats.label("vibrato_steps_judged", (uint64_t)v.steps.size()); ctx().stats.label("vibrato_steps_off_centre", dev); });
    });
    pbt("c10_bend_fanout", c.n, 60, []() {
        Scn s; s.kind = 0; s.family = *rng<int>(0, 1); s.msb = *rc::gen::element(0, 1, 2, 12, 24); s.offset = *rc::gen::element(0, 0, -12, 5, 24); s.ops = within_polyphony(*genScnOps(0), 11);
        std::string t = ser(s);
        run_case(t, [&] { SInfo si; run_scenario(s, si); ctx().stats.note_case(t, si.fanouts > 0); ctx().stats.label("bend_messages_judged", si.fanouts); if(si.held_seen) ctx().stats.label("pedal_held_note_present_at_bend"); });
    });
    pbt("c10_portamento", c.n, 60, []() {
        Scn s; s.kind = 1; s.family = *rng<int>(0, 1); s.msb = 2; s.offset = *rc::gen::element(0, 0, -12, 5); s.porta = *rng<int>(1, 50); s.ops = within_polyphony(*genScnOps(1), 11);
        std::string t = ser(s);
        run_case(t, [&] { SInfo si; run_scenario(s, si); ctx().stats.note_case(t, si.glides > 0); ctx().stats.label("glide_repitches_judged", si.glides); ctx().stats.label("portamento_start_points_judged", si.starts); });
    });
    return finish();
}
