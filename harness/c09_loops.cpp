// C09: loop points - the marked section repeats exactly as often as requested.
// Engine: rapidcheck (songs with 0-2 loop markers at arbitrary ticks, valid and invalid placements, counts, hook registration
// orders); oracle: reference unroller over the generated structure (per-track stamped event stream = prefix, body x n, suffix).
#include "common/inst.hpp"
#include "common/smf.hpp"
#include "common/rc_util.hpp"
#include <map>
#include <set>

using namespace vf;

struct Marker { int track = 0; uint64_t tick = 0; int kind = 0; /*0 loopStart marker, 1 loopEnd marker, 2 CC111 as loop start*/ int text_case = 0; };
struct Case { SSong song; std::vector<Marker> markers; int loop_enabled = 1, count = 2, hooks_when = 0 /*0 before load, 1 after load, 2 before + reset in between*/, count_after_load = 0; };

static std::string ser(const Case &c) {
    std::ostringstream o; o << "loop " << c.loop_enabled << " " << c.count << " " << c.hooks_when << " " << c.count_after_load << " " << c.markers.size();
    for(const Marker &m : c.markers) o << " " << m.track << " " << m.tick << " " << m.kind << " " << m.text_case;
    o << "\n" << smf_ser(c.song); return o.str();
}
static Case deser(const std::string &s) {
    Case c; std::istringstream in(s); std::string w; size_t n = 0; in >> w >> c.loop_enabled >> c.count >> c.hooks_when >> c.count_after_load >> n;
    for(size_t i = 0; i < n; i++) { Marker m; in >> m.track >> m.tick >> m.kind >> m.text_case; c.markers.push_back(m); }
    c.song = smf_deser(in); return c;
}

// inserts the markers into a copy of the song (ticks of ordinary events are even; markers may sit on odd ticks = alone)
static SSong with_markers(const Case &c) {
    SSong s = c.song; smf_ticks(s);
    for(const Marker &m : c.markers) {
        STrack &t = s.tracks[(size_t)m.track % s.tracks.size()];
        SEv e;
        if(m.kind == 2) { e.status = (uint8_t)(0xB0 | ((2 * ((size_t)m.track % s.tracks.size())) % 16)); e.data = {111, 0}; }
        else { e.status = 0xFF; e.meta = 0x06; static const char *st[] = {"loopStart", "LOOPSTART", "loopstart"}; static const char *en[] = {"loopEnd", "LoopEnd", "loopend"};
               const char *txt = m.kind == 0 ? st[m.text_case % 3] : en[m.text_case % 3]; e.data.assign(txt, txt + strlen(txt)); }
        e.tick = m.tick;
        // insert before the first event with tick > m.tick (but never after the End-of-Track)
        size_t pos = 0; while(pos < t.ev.size() && t.ev[pos].tick <= m.tick && !(t.ev[pos].status == 0xFF && t.ev[pos].meta == 0x2F)) pos++;
        if(pos < t.ev.size() && t.ev[pos].status == 0xFF && t.ev[pos].meta == 0x2F && t.ev[pos].tick <= m.tick) t.ev[pos].tick = m.tick + 1; // push the End-of-Track behind the marker
        t.ev.insert(t.ev.begin() + (long)pos, e);
        // rebuild deltas from ticks
        uint64_t prev = 0; for(SEv &x : t.ev) { if(x.tick < prev) x.tick = prev; x.delta = (uint32_t)(x.tick - prev); prev = x.tick; }
    }
    smf_ticks(s);
    return s;
}

struct Seen { int type, sub, ch; std::vector<uint8_t> data; bool notes_active; };
struct Rec { std::vector<Seen> got; OPN2_MIDIPlayer *dev = nullptr; Inst *I = nullptr; };
static void raw_hook(void *ud, OPN2_UInt8 type, OPN2_UInt8 subtype, OPN2_UInt8 channel, const OPN2_UInt8 *data, size_t len) {
    Rec *r = (Rec *)ud; Seen e; e.type = type; e.sub = subtype; e.ch = channel; if(len) e.data.assign(data, data + len);
    e.notes_active = false; OPNMIDIplay *p = r->I->play();
    for(size_t m = 0; m < p->m_midiChannels.size(); m++) for(OPNMIDIplay::MIDIchannel::notes_iterator i = p->m_midiChannels[m].activenotes.begin(); !i.is_end(); ++i) { const OPNMIDIplay::MIDIchannel::NoteInfo &n = i->value; if(*(const unsigned char *)&n.isBlank == 0) e.notes_active = true; }
    r->got.push_back(e);
}
static int g_start_calls = 0, g_end_calls = 0;
static void on_start(void *) { g_start_calls++; }
static void on_end(void *) { g_end_calls++; }

struct Info { bool valid_loop = false, invalid_placement = false; int passes = 0; bool shared_start_tick = false; };

static void run(const Case &c, Info &info) {
    opnmidi_verif_tap = NULL; opnmidi_verif_frames = NULL;
    SSong song = with_markers(c);
    std::string img = smf_write(song);
    size_t nt = song.tracks.size();
    // ---- reference: which loop does the file define?
    int nstart = 0, nend = 0; uint64_t S = 0, E = 0; bool same_row = false;
    for(const Marker &m : c.markers) { if(m.kind == 1) { nend++; E = m.tick; } else { nstart++; S = m.tick; } }
    // the end of the song: latest event tick, where an End-of-Track standing alone counts at the tick of the event before it (trailing silence is skipped)
    uint64_t song_end = 0;
    for(const STrack &t : song.tracks) { size_t nn = t.ev.size(); for(size_t i = 0; i < nn; i++) { uint64_t tk = t.ev[i].tick; if(i + 1 == nn && t.ev[i].status == 0xFF && t.ev[i].meta == 0x2F && (nn == 1 || t.ev[nn - 2].tick != tk)) tk = nn == 1 ? 0 : t.ev[nn - 2].tick; song_end = std::max(song_end, tk); } }
    if(nstart == 1 && nend == 1 && S == E) same_row = true;
    bool valid = nstart <= 1 && nend <= 1 && (nstart + nend) > 0 && !same_row;
    if(valid && nstart == 1 && nend == 0) E = song_end;   // open end: the end of the song
    if(valid && nstart == 0 && nend == 1) S = 0;          // open start: the beginning of the song
    if(valid && !(S < E)) valid = false;
    // duplicated CC111 switches the loop dialect (EMIDI); duplicates are 'invalid placements' for markers only - keep CC111 single by construction
    bool looping = c.loop_enabled != 0;
    int n = !looping ? 1 : (c.count >= 1 ? c.count : (c.count == 0 ? 1 : -1));
    int passes_to_run = n < 0 ? 6 : n;
    info.valid_loop = valid && looping; info.invalid_placement = !valid && (nstart + nend) > 0 && looping; info.passes = passes_to_run;
    bool explicit_end_marker = valid && nend == 1;

    // ---- instance
    Inst I(8000); opn2_switchEmulator(I.dev, EMU_NP2); opn2_setNumChips(I.dev, 2); install_default_banks(I.dev, 200, 20);
    Rec rec; rec.dev = I.dev; rec.I = &I; g_start_calls = 0; g_end_calls = 0;
    opn2_setRawEventHook(I.dev, raw_hook, &rec);
    opn2_setLoopEnabled(I.dev, c.loop_enabled);
    if(!c.count_after_load) opn2_setLoopCount(I.dev, c.count);
    if(c.hooks_when == 0 || c.hooks_when == 2) { opn2_setLoopStartHook(I.dev, on_start, NULL); opn2_setLoopEndHook(I.dev, on_end, NULL); }
    if(c.hooks_when == 2) opn2_reset(I.dev);
    VCHECK(opn2_openData(I.dev, img.data(), (unsigned long)img.size()) == 0, "generated SMF rejected: %s", opn2_errorInfo(I.dev));
    if(c.hooks_when == 1) { opn2_setLoopStartHook(I.dev, on_start, NULL); opn2_setLoopEndHook(I.dev, on_end, NULL); }
    if(c.count_after_load) { opn2_setLoopCount(I.dev, c.count); opn2_positionRewind(I.dev); }
    TempoMap tm = tempo_map(song);
    double ls = opn2_loopStartTime(I.dev), le = opn2_loopEndTime(I.dev);
    if(valid) {
        VCHECK(std::fabs(ls - tm.seconds(S)) <= 1e-9 * (1 + tm.seconds(S)), "loopStartTime %.9f, the loop start is at %.9f s (tick %llu)", ls, tm.seconds(S), (unsigned long long)S);
        VCHECK(std::fabs(le - tm.seconds(E)) <= 1e-9 * (1 + tm.seconds(E)), "loopEndTime %.9f, the loop end is at %.9f s (tick %llu)", le, tm.seconds(E), (unsigned long long)E);
    } else VCHECK(ls == -1.0 && le == -1.0, "loop times %.6f/%.6f reported although the file has no valid loop", ls, le);

    // ---- play: count passes through per-track stamps; stop an endless loop after 6 passes
    double d = 0; size_t guard = 0; const double G = 1e-6;
    // expected number of deliveries of every stamped event
    auto expected_count = [&](uint64_t tick) -> int { if(!looping) return 1; if(!valid) return passes_to_run; if(tick < S) return 1; if(tick < E || !explicit_end_marker) return passes_to_run; /* an open loop end is the end of the song: everything from the start point on repeats */ return n < 0 ? 0 : 1; };
    size_t body_marks_needed = 0; // for endless loops: stop once every body event was seen passes_to_run times
    std::map<std::string, int> seen_count;
    auto key_of = [](const Seen &e) { return fmt("%02X/%02X/%d/", e.type, e.sub, e.ch) + hex(e.data.data(), e.data.size()); };
    (void)body_marks_needed;
    size_t processed = 0; bool stop = false;
    while(!opn2_atEnd(I.dev) && !stop) {
        double step = d > G ? d : G;
        d = opn2_tickEvents(I.dev, step, G);
        for(; processed < rec.got.size(); processed++) { const Seen &e = rec.got[processed]; if(n < 0 && e.type == 0xFF && (valid ? (e.sub == 0xE1 || (nstart == 0 && e.sub == 0xE2)) : (e.sub == 0x2F))) { int &k = seen_count[key_of(e)]; if(++k >= (valid ? 7 : 7 * (int)nt)) stop = true; } }
        VCHECK(++guard < 3000000, "playback neither ends nor loops");
    }
    if(n < 0) VCHECK(!opn2_atEnd(I.dev) || !looping, "count -1 must repeat without end, but the end of the song was reported");
    else VCHECK(opn2_atEnd(I.dev), "the song did not end");

    // ---- compare deliveries with the unrolled structure
    std::map<std::string, int> got_count; std::map<std::string, int> want_count;
    std::vector<Seen> got = rec.got;
    for(const Seen &e : got) { if(e.type == 0xFF && e.sub == 0x01 && e.data.empty()) continue; got_count[key_of(e)]++; }
    for(size_t k = 0; k < nt; k++) for(const SEv &e : song.tracks[k].ev) {
        Seen x; x.ch = 0; x.sub = 0;
        if(e.status == 0xFF) { x.type = 0xFF; x.sub = e.meta; x.data = e.data; if(e.meta == 0x06) { std::string t((const char *)e.data.data(), e.data.size()); for(char &ch : t) if(ch >= 'A' && ch <= 'Z') ch = (char)(ch - 'A' + 'a'); if(t == "loopstart") { x.sub = 0xE1; x.data.clear(); } else if(t == "loopend") { x.sub = 0xE2; x.data.clear(); } } }
        else if(e.status == 0xF0 || e.status == 0xF7) { x.type = 0xF0; x.data.push_back(e.status); x.data.insert(x.data.end(), e.data.begin(), e.data.end()); }
        else { x.type = e.status >> 4; x.ch = e.status & 15; x.data = e.data; if(x.type == 9 && e.data[1] == 0) x.type = 8; if(x.type == 0x0B && e.data[0] == 111) { x.type = 0xFF; x.sub = 0xE1; x.ch = e.status & 15; x.data.clear(); } }
        uint64_t tick = e.tick;
        if(e.status == 0xFF && e.meta == 0x2F) { const STrack &t = song.tracks[k]; size_t nn = t.ev.size(); if(nn == 1 || t.ev[nn - 2].tick != e.tick) tick = nn == 1 ? 0 : t.ev[nn - 2].tick; }
        int cnt = expected_count(tick);
        if(e.status == 0xFF && e.meta == 0x06 && x.sub == 0xE2 && valid && looping) cnt = passes_to_run; // the loopEnd marker itself is reached once per pass
        want_count[key_of(x)] += cnt;
    }
    // the All-Notes-Off that precedes a jump are real-time calls, not raw events: nothing to subtract
    if(n >= 0) {
        for(auto &kv : want_count) VCHECK(got_count[kv.first] == kv.second, "event %s was delivered %d time(s), expected %d (loop %s, count %d, start tick %llu, end tick %llu)", kv.first.c_str(), got_count[kv.first], kv.second,
                                          valid ? "valid" : (nstart + nend ? "invalid placement -> whole song" : "no markers -> whole song"), c.count, (unsigned long long)S, (unsigned long long)E);
        for(auto &kv : got_count) VCHECK(want_count.count(kv.first), "event %s was delivered but is not in the file", kv.first.c_str());
    } else {
        for(auto &kv : want_count) { if(kv.second == 0) VCHECK(got_count[kv.first] == 0, "event %s after the loop end was delivered although the loop repeats without end", kv.first.c_str()); else if(kv.second >= passes_to_run) VCHECK(got_count[kv.first] >= passes_to_run, "event %s inside the endless loop was delivered only %d times in 6+ passes", kv.first.c_str(), got_count[kv.first]); }
    }
    // every jump back is preceded by All-Notes-Off: at the first stamped event after a jump nothing sounds
    // (stamps are written before the ordinary event of their tick, so nothing of the new pass has started a note yet)
    {
        std::map<int, int> last_serial; int jumps = 0;
        for(size_t i = 0; i < got.size(); i++) {
            const Seen &e = got[i]; int trk = -1, serial = -1;
            if(e.type == 0xFF && e.sub == 0x01 && e.data.size() >= 3) { trk = e.data[0]; serial = (e.data[1] << 7) | e.data[2]; }
            if(trk < 0) continue;
            if(last_serial.count(trk) && serial <= last_serial[trk]) {
                jumps++; last_serial.clear();
                VCHECK(!e.notes_active, "jump back #%d: a note of the previous pass is still sounding when the first event of the new pass arrives (no All-Notes-Off before the jump)", jumps);
            }
            last_serial[trk] = serial;
        }
        bool body_has_stamp = false;
        for(size_t k = 0; k < nt; k++) for(const SEv &e : song.tracks[k].ev) if(e.status == 0xFF && e.meta == 0x01 && (!valid || (e.tick >= S && e.tick < E))) body_has_stamp = true;
        if(looping && n >= 0 && body_has_stamp) VCHECK(jumps == n - 1, "%d jump(s) back were observed, count %d asks for %d", jumps, c.count, n - 1);
    }
    // hook counts
    if(looping && n >= 0) {
        int want_end = valid ? (explicit_end_marker ? n + 1 : n) : n;
        VCHECK(g_end_calls == want_end, "loop-end hook fired %d times, expected %d (%s; hooks registered %s)", g_end_calls, want_end, explicit_end_marker ? "n arrivals at the loop end + the song end" : "n arrivals at the song end",
               c.hooks_when == 0 ? "before load" : (c.hooks_when == 1 ? "after load" : "before a reset and load"));
        if(valid && nstart == 1 && !c.count_after_load) VCHECK(g_start_calls == n, "loop-start hook fired %d times for %d passes through the loop start (hooks registered %s)", g_start_calls, n, c.hooks_when == 0 ? "before load" : (c.hooks_when == 1 ? "after load" : "before a reset and load"));
    }
    if(!looping) VCHECK(g_end_calls == 1, "loop-end hook fired %d times although the song played once straight through", g_end_calls);
    for(const Marker &m : c.markers) if(m.kind != 1 && (m.tick % 2) == 0) info.shared_start_tick = true;
}

// ---------------------------------------------------------------- generator: dense little songs, ordinary events on even ticks
static rc::Gen<SSong> genLoopSong() {
    using namespace rc;
    return gen::mapcat(gen::tuple(rng<int>(1, 3), gen::element(24, 96, 480)), [](std::tuple<int, int> h) {
        int nt = std::get<0>(h); unsigned division = (unsigned)std::get<1>(h);
        auto evGen = gen::tuple(rng<int>(0, 3), rng<int>(0, 9), rng<int>(0, 1000));
        return gen::map(gen::container<std::vector<std::vector<std::tuple<int, int, int>>>>((size_t)nt, gen::resize(14, gen::container<std::vector<std::tuple<int, int, int>>>(evGen))), [division](std::vector<std::vector<std::tuple<int, int, int>>> raw) {
            SSong s; s.format = raw.size() > 1 ? 1 : 0; s.division = division;
            for(size_t k = 0; k < raw.size(); k++) {
                STrack t; int serial = 0;
                for(auto &r : raw[k]) {
                    int kind = std::get<1>(r), b = std::get<2>(r); SEv e; e.delta = (uint32_t)std::get<0>(r) * 2; int ch = (int)(2 * k + (size_t)(b & 1)) % 16; int key = 40 + b % 6; serial++;
                    switch(kind) {
                    case 0: case 1: case 2: e.status = (uint8_t)(0x90 | ch); e.data = {(uint8_t)key, (uint8_t)(1 + b % 127)}; break;
                    case 3: case 4: e.status = (uint8_t)(0x80 | ch); e.data = {(uint8_t)key, 0}; break;
                    case 5: { static const int cc[] = {7, 10, 11, 1, 74}; e.status = (uint8_t)(0xB0 | ch); e.data = {(uint8_t)cc[b % 5], (uint8_t)(b % 128)}; break; }
                    case 6: e.status = (uint8_t)(0xC0 | ch); e.data = {(uint8_t)(b % 8)}; break;
                    case 7: if(k == 0) { static const uint32_t tv[] = {500000, 250000, 400000}; uint32_t v = tv[b % 3]; e.status = 0xFF; e.meta = 0x51; e.data = {(uint8_t)(v >> 16), (uint8_t)(v >> 8), (uint8_t)v}; break; } /* fallthrough */
                    default: e.status = 0xFF; e.meta = 0x01; e.data = {(uint8_t)k, (uint8_t)((serial >> 7) & 0x7F), (uint8_t)(serial & 0x7F)}; break;
                    }
                    // a stamped text event precedes every ordinary event (so every tick that carries anything carries a stamp first)
                    if(e.status != 0xFF || e.meta != 0x01) { SEv st; st.delta = e.delta; e.delta = 0; serial++; st.status = 0xFF; st.meta = 0x01; st.data = {(uint8_t)k, (uint8_t)((serial >> 7) & 0x7F), (uint8_t)(serial & 0x7F)}; t.ev.push_back(st); }
                    t.ev.push_back(e);
                }
                SEv eot; eot.status = 0xFF; eot.meta = 0x2F; eot.delta = 0; t.ev.push_back(eot);
                s.tracks.push_back(t);
            }
            smf_ticks(s); return s;
        });
    });
}
void showValue(const Case &c, std::ostream &os) { os << ser(c); }

int main(int argc, char **argv) {
    parse_args(argc, argv);
    Ctx &c = ctx();
    if(!c.kv.count("budget")) c.cpu_budget_s = 120; else c.cpu_budget_s = c.opt("budget", 120);
    if(c.mode == "replay") return replay_main([](const std::string &s) { Info info; run(deser(s), info); });
    pbt("c09_loop_unroller", c.n, 40, []() {
        Case cs; cs.song = *genLoopSong();
        uint64_t last = 0; for(const STrack &t : cs.song.tracks) for(const SEv &e : t.ev) last = std::max(last, e.tick);
        int nt = (int)cs.song.tracks.size();
        int placement = *rc::gen::weightedElement<int>({{8, 0}, {2, 1}, {2, 2}, {2, 3}, {2, 4}, {2, 5}, {2, 6}, {2, 7}}); // 0 valid pair, 1 none, 2 only start, 3 only end, 4 end<=start, 5 duplicate start, 6 duplicate end, 7 same tick
        auto anytick = [&](bool allow_even) { uint64_t t = (uint64_t)*rng<int>(0, (int)last + 2); if(!allow_even) t |= 1; return t; };
        auto mk = [&](int kind, uint64_t tick) { Marker m; m.track = *rng<int>(0, nt - 1); m.tick = tick; m.kind = kind; m.text_case = *rng<int>(0, 2); if(kind == 0 && *rng<int>(0, 5) == 0) m.kind = 2; return m; };
        bool even_start = *rng<int>(0, 1) == 0; // the loop start may share its tick with other events (also of other tracks); the loop end stands alone
        switch(placement) {
        case 0: { uint64_t a = anytick(even_start), b = anytick(false); if(a > b) std::swap(a, b); if(a == b) b += 2; if(!even_start) a |= 1; b |= 1; if(a >= b) b = a + 2 - (a & 1) + 1; cs.markers = {mk(0, a), mk(1, b)}; break; }
        case 1: break;
        case 2: cs.markers = {mk(0, anytick(even_start))}; break;
        case 3: cs.markers = {mk(1, anytick(false) + 2)}; break;
        case 4: { uint64_t a = anytick(false) + 4, b = (uint64_t)*rng<int>(0, (int)a - 1) | 1; if(b >= a) b = a - 2; cs.markers = {mk(0, a), mk(1, b)}; cs.markers[0].kind = 0; break; }
        case 5: { uint64_t a = anytick(false), b = anytick(false) + 2; cs.markers = {mk(0, a), mk(0, b), mk(1, std::max(a, b) + 4)}; cs.markers[0].kind = 0; cs.markers[1].kind = 0; break; }
        case 6: { uint64_t a = anytick(false); cs.markers = {mk(0, a), mk(1, a + 4), mk(1, a + 8)}; cs.markers[0].kind = 0; break; }
        default: { uint64_t a = anytick(false); cs.markers = {mk(0, a), mk(1, a)}; cs.markers[0].kind = 0; cs.markers[1].track = cs.markers[0].track; break; }
        }
        cs.loop_enabled = *rc::gen::weightedElement<int>({{5, 1}, {1, 0}});
        cs.count = *rc::gen::element(-1, 0, 1, 2, 3, 4, 2, 3);
        cs.hooks_when = *rng<int>(0, 2); cs.count_after_load = *rc::gen::weightedElement<int>({{4, 0}, {1, 1}});
        std::string s = ser(cs);
        run_case(s, [&] {
            Info info; run(cs, info);
            Stats &st = ctx().stats;
            st.note_case(s, (info.valid_loop && info.passes >= 2) || info.invalid_placement);
            if(info.valid_loop) st.label("valid_loop"); if(info.invalid_placement) st.label("invalid_placement_loop_enabled"); st.label("passes_" + std::to_string(info.passes)); if(info.shared_start_tick) st.label("loop_start_shares_its_tick");
            st.label(cs.hooks_when == 0 ? "hooks_before_load" : (cs.hooks_when == 1 ? "hooks_after_load" : "hooks_before_reset+load"));
        });
    });
    return finish();
}
