// C13: audio calls fill exactly what they report, in the requested sample format.
// Engine: rapidcheck (call histories x formats x layouts x emulators); oracles: dual-poison guard (exactly the reported
// samples are stored, nothing else changes), return-value rules, and differential conversion against an F64 twin.
#include "common/ops.hpp"
#include "common/rc_util.hpp"
#include <cmath>
#include <cfloat>

using namespace vf;

struct ACall { int fn = 0; int n = 0; int type = 0; int cont = 2; int layout = 0; int k = 1; };
struct Case { int emu = EMU_NP2, chips = 1, loud = 0, rate_idx = 0, with_song = 0; std::vector<ACall> calls; };
static const long kRates[] = {8000, 22050, 44100, 48000};

static std::string ser(const Case &c) {
    std::ostringstream o; o << "cfg " << c.emu << " " << c.chips << " " << c.loud << " " << c.rate_idx << " " << c.with_song << "\n";
    for(const ACall &a : c.calls) o << "call " << a.fn << " " << a.n << " " << a.type << " " << a.cont << " " << a.layout << " " << a.k << "\n";
    return o.str();
}
static Case deser(const std::string &s) {
    Case c; std::istringstream in(s); std::string w; in >> w >> c.emu >> c.chips >> c.loud >> c.rate_idx >> c.with_song;
    while(in >> w) { ACall a; in >> a.fn >> a.n >> a.type >> a.cont >> a.layout >> a.k; c.calls.push_back(a); }
    return c;
}

static bool supported(int type, int cont) {
    switch(type) {
    case OPNMIDI_SampleType_S8: case OPNMIDI_SampleType_U8: return cont == 1 || cont == 2 || cont == 4;
    case OPNMIDI_SampleType_S16: case OPNMIDI_SampleType_U16: return cont == 2 || cont == 4;
    case OPNMIDI_SampleType_S24: case OPNMIDI_SampleType_U24: case OPNMIDI_SampleType_S32: case OPNMIDI_SampleType_U32: return cont == 4;
    case OPNMIDI_SampleType_F32: return cont == 4;
    case OPNMIDI_SampleType_F64: return cont == 8;
    default: return false;
    }
}
// documented conversion of the 32-bit mix value x, written into a container of `cont` bytes (little endian host)
static void convert(long long x, int type, int cont, uint8_t *out) {
    long long s16 = x < -32768 ? -32768 : (x > 32767 ? 32767 : x);
    long long v = 0; bool isf = false;
    switch(type) {
    case OPNMIDI_SampleType_S16: v = s16; break;
    case OPNMIDI_SampleType_U16: v = s16 + 32768; break;
    case OPNMIDI_SampleType_S8: v = s16 / 256; break;
    case OPNMIDI_SampleType_U8: v = s16 / 256 + 128; break;
    case OPNMIDI_SampleType_S24: v = s16 * 256; break;
    case OPNMIDI_SampleType_U24: v = s16 * 256 + 8388608; break;
    case OPNMIDI_SampleType_S32: v = s16 * 65536; break;
    case OPNMIDI_SampleType_U32: v = s16 * 65536 + 2147483648LL; break;
    case OPNMIDI_SampleType_F32: { float f = (float)(int32_t)x * (1.0f / 32767.0f); memcpy(out, &f, 4); isf = true; break; }
    case OPNMIDI_SampleType_F64: { double f = (double)(int32_t)x * (1.0 / 32767.0); memcpy(out, &f, 8); isf = true; break; }
    }
    if(isf) return;
    switch(cont) {
    case 1: { int8_t t = (int8_t)(uint8_t)(v & 0xFF); memcpy(out, &t, 1); break; }
    case 2: { int16_t t = (int16_t)(uint16_t)(v & 0xFFFF); memcpy(out, &t, 2); break; }
    default: { int32_t t = (int32_t)(uint32_t)(v & 0xFFFFFFFFLL); memcpy(out, &t, 4); break; }
    }
}

static std::string song_image() { // ~0.25 s of notes at 120 BPM, 96 PPQN
    std::string trk;
    auto ev = [&](std::initializer_list<int> b) { for(int x : b) trk += (char)x; };
    ev({0x00, 0x90, 0x3C, 0x7F, 0x00, 0x90, 0x40, 0x7F, 0x18, 0x80, 0x3C, 0x00, 0x00, 0x90, 0x43, 0x7F, 0x18, 0x80, 0x40, 0x00, 0x00, 0x80, 0x43, 0x00, 0x00, 0xFF, 0x2F, 0x00});
    std::string f("MThd\0\0\0\6\0\0\0\1\0\x60", 14);
    f += "MTrk"; f += (char)0; f += (char)0; f += (char)(trk.size() >> 8); f += (char)(trk.size() & 255);
    return f + trk;
}

struct CallOut { int ret = 0; int at_end = 0; std::vector<uint8_t> mem; size_t left_off = 0, right_off = 0; unsigned offset = 0; };

// runs the whole history on a fresh instance; when ref is true every call renders F64/8 interleaved instead of its own format
static void run_history(const Case &c, bool ref, uint8_t poison_seed, std::vector<CallOut> &outs) {
    long rate = kRates[(size_t)c.rate_idx % 4];
    Inst I(rate);
    VCHECK(I.dev, "opn2_init failed");
    OPN2_MIDIPlayer *d = I.dev;
    VCHECK(opn2_switchEmulator(d, c.emu) == 0, "switchEmulator(%d) failed", c.emu);
    VCHECK(opn2_setNumChips(d, c.chips) == 0, "setNumChips failed");
    { OPN2_Bank b; VCHECK(api_get_bank(d, 0, 0, 0, &b), "bank");
      for(unsigned i = 0; i < 128; i++) { OPN2_Instrument in = make_ins((uint8_t)i, 1, 0, 0, 40000, 100, 7); for(int o = 0; o < 4; o++) { in.operators[o].level_40 = c.loud ? 0 : 30; in.operators[o].dtfm_30 = (uint8_t)(1 + o); } opn2_setInstrument(d, &b, i, &in); } }
    if(c.with_song) { std::string s = song_image(); VCHECK(opn2_openData(d, s.data(), (unsigned long)s.size()) == 0, "song rejected: %s", opn2_errorInfo(d)); }
    else {
        int nn = c.loud ? 6 * c.chips : 1;
        for(int i = 0; i < nn; i++) opn2_rt_noteOn(d, (OPN2_UInt8)(i % 8), (OPN2_UInt8)(48 + (i * 5) % 36), (OPN2_UInt8)(c.loud ? 127 : 40));
    }
    bool short_seen = false;
    for(const ACall &a : c.calls) {
        CallOut co;
        int type = a.type, cont = a.cont, layout = a.layout, k = a.k;
        if(a.fn == 0 || a.fn == 2) { type = OPNMIDI_SampleType_S16; cont = 2; layout = 0; k = 1; }
        if(ref && !supported(type, cont)) { outs.push_back(co); continue; } // the twin skips refused calls
        if(ref) { type = OPNMIDI_SampleType_F64; cont = 8; layout = 0; k = 1; }
        long n = a.n; long want = n < 0 ? 0 : n - n % 2; size_t frames = (size_t)(want / 2);
        unsigned offset = layout == 0 ? (unsigned)(2 * cont * k) : (unsigned)(cont * k);
        size_t span = frames * offset + 64;
        co.mem.assign(256 + span * (layout == 0 ? 1 : 2) + 512, 0);
        for(size_t i = 0; i < co.mem.size(); i++) co.mem[i] = (uint8_t)(poison_seed + i * 131u + (i >> 8) * 7u);
        co.left_off = 256; co.right_off = layout == 0 ? 256 + (size_t)cont : 256 + span + 64 - (span + 64) % 8 + 8;
        co.offset = offset;
        OPNMIDI_AudioFormat f; f.type = (OPNMIDI_SampleType)type; f.containerSize = (unsigned)cont; f.sampleOffset = offset;
        uint8_t *L = co.mem.data() + co.left_off, *R = co.mem.data() + co.right_off;
        switch(ref ? (a.fn >= 2 ? 3 : 1) : a.fn) {
        case 0: co.ret = opn2_generate(d, (int)n, (short *)L); break;
        case 1: co.ret = opn2_generateFormat(d, (int)n, L, R, &f); break;
        case 2: co.ret = opn2_play(d, (int)n, (short *)L); break;
        default: co.ret = opn2_playFormat(d, (int)n, L, R, &f); break;
        }
        co.at_end = opn2_atEnd(d);
        // ---- return value rules (checked on the real run only)
        if(!ref) {
            bool sup = supported(type, cont);
            if(a.fn < 2) {
                // generate*: the statement gives the return value outright
                if(sup) VCHECK(co.ret == want, "generate(%ld) returned %d, expected %ld", n, co.ret, want);
                else VCHECK(co.ret == 0, "unsupported format (type %d, container %d) was not refused: returned %d", type, cont, co.ret);
            } else {
                VCHECK(co.ret >= 0 && co.ret <= want && co.ret % 2 == 0, "play(%ld) returned %d", n, co.ret);
                if(!sup) VCHECK(co.ret == 0, "unsupported format (type %d, container %d) was not refused by play: returned %d", type, cont, co.ret);
                else {
                    if(short_seen) VCHECK(co.ret == 0, "play returned %d after the end of the song had already been reported", co.ret);
                    if(co.ret < want) { VCHECK(co.at_end == 1, "play(%ld) returned only %d although the song has not ended", n, co.ret); short_seen = true; }
                }
            }
        }
        outs.push_back(std::move(co));
    }
}

struct Info { bool signal = false, clipped = false, planar = false, multi_period = false, song_end = false; int formats = 0; };

static void run(const Case &c, Info &info) {
    std::vector<CallOut> a1, a2, rf;
    run_history(c, false, 0x11, a1);
    run_history(c, false, 0xC7, a2);
    run_history(c, true, 0x5A, rf);
    for(size_t ci = 0; ci < c.calls.size(); ci++) {
        const ACall &a = c.calls[ci];
        int type = a.type, cont = a.cont, layout = a.layout;
        if(a.fn == 0 || a.fn == 2) { type = OPNMIDI_SampleType_S16; cont = 2; layout = 0; }
        const CallOut &x = a1[ci], &y = a2[ci], &r = rf[ci];
        std::string cx = fmt("call %zu (fn %d n %d type %d container %d layout %d k %d, emu %d chips %d)", ci, a.fn, a.n, type, cont, layout, a.k, c.emu, c.chips);
        VCHECK(x.ret == y.ret, "%s: two identical histories returned %d and %d", cx.c_str(), x.ret, y.ret);
        bool sup = supported(type, cont);
        if(sup) VCHECK(x.ret == r.ret, "%s: returned %d but the F64 twin of the same history returned %d", cx.c_str(), x.ret, r.ret);
        // (1) exactly the reported samples were stored
        size_t frames = (size_t)(x.ret / 2);
        std::vector<uint8_t> expect(x.mem.size(), 0);
        for(size_t i = 0; i < frames; i++) for(int b = 0; b < cont; b++) { expect[x.left_off + i * x.offset + (size_t)b] = 1; expect[x.right_off + i * x.offset + (size_t)b] = 1; }
        for(size_t i = 0; i < x.mem.size(); i++) {
            uint8_t p1 = (uint8_t)(0x11 + i * 131u + (i >> 8) * 7u), p2 = (uint8_t)(0xC7 + i * 131u + (i >> 8) * 7u);
            bool untouched = x.mem[i] == p1 && y.mem[i] == p2;
            if(expect[i]) VCHECK(!untouched, "%s: byte %zu of reported sample storage was not written (returned %d)", cx.c_str(), i, x.ret);
            else VCHECK(untouched, "%s: byte at offset %zu outside the reported samples was modified (left starts at %zu, right at %zu, stride %u, returned %d)", cx.c_str(), i, x.left_off, x.right_off, x.offset, x.ret);
        }
        if(!sup) continue;
        // two identical histories must agree byte for byte (otherwise the differential below is meaningless; charged to C14)
        for(size_t i = 0; i < frames; i++) for(int b = 0; b < cont; b++) for(int chn = 0; chn < 2; chn++) {
            size_t o = (chn ? x.right_off : x.left_off) + i * x.offset + (size_t)b;
            VCHECK(x.mem[o] == y.mem[o], "%s: NONDETERMINISM: two fresh instances with the same history differ at frame %zu (property C14)", cx.c_str(), i);
        }
        // (3) documented conversion of the same signal
        const double *rd = (const double *)(r.mem.data() + r.left_off);
        for(size_t i = 0; i < frames; i++) for(int chn = 0; chn < 2; chn++) {
            double v = rd[i * 2 + (size_t)chn];
            long long mix = std::llround(v * 32767.0);
            uint8_t want[8]; convert(mix, type, cont, want);
            const uint8_t *got = x.mem.data() + (chn ? x.right_off : x.left_off) + i * x.offset;
            if(mix != 0) info.signal = true;
            if(mix > 32767 || mix < -32768) info.clipped = true;
            if(type == OPNMIDI_SampleType_F32) {
                float g, w; memcpy(&g, got, 4); memcpy(&w, want, 4);
                VCHECK(std::fabs(g - w) <= std::fabs(w) * FLT_EPSILON + 1e-12f, "%s: frame %zu ch %d: F32 %g, documented conversion of mix %lld is %g", cx.c_str(), i, chn, (double)g, mix, (double)w);
            } else if(type == OPNMIDI_SampleType_F64) {
                VCHECK(memcmp(got, want, 8) == 0, "%s: frame %zu ch %d: F64 differs between two runs of the same history", cx.c_str(), i, chn);
            } else {
                VCHECK(memcmp(got, want, (size_t)cont) == 0, "%s: frame %zu ch %d: stored %s, documented conversion of mix value %lld is %s", cx.c_str(), i, chn,
                       hex(got, (size_t)cont).c_str(), mix, hex(want, (size_t)cont).c_str());
            }
        }
        info.formats++;
        if(layout == 1) info.planar = true;
        if(x.ret > 1024) info.multi_period = true;
        if(a.fn >= 2 && x.at_end) info.song_end = true;
    }
}

static rc::Gen<ACall> genCall(bool song) {
    using namespace rc;
    return gen::map(gen::tuple(rng<int>(0, 99), gen::weightedOneOf<int>({{6, gen::element(-4, -3, -1, 0, 1, 2, 3, 1022, 1023, 1024, 1025, 1026, 2047, 2048, 4097)}, {2, rng<int>(0, 5000)}, {1, gen::element(70000, 20000)}}),
                               rng<int>(0, 11), gen::element(1, 2, 4, 8, 3, 2, 4), rng<int>(0, 1), rng<int>(1, 3)),
                    [song](std::tuple<int, int, int, int, int, int> t) {
                        ACall a; int f = std::get<0>(t);
                        a.fn = song ? (f < 25 ? 2 : (f < 85 ? 3 : (f < 92 ? 0 : 1))) : (f < 25 ? 0 : 1);
                        a.n = std::get<1>(t); a.type = std::get<2>(t); a.cont = std::get<3>(t); a.layout = std::get<4>(t); a.k = std::get<5>(t);
                        if(a.layout == 0 && a.k > 2) a.k = 2;
                        // half of the format calls use a supported pair so conversions are exercised, not only refusals
                        if(a.type <= 9 && !supported(a.type, a.cont) && (f & 1)) { static const int good[10] = {2, 1, 4, 8, 4, 4, 1, 2, 4, 4}; a.cont = good[a.type]; }
                        return a;
                    });
}
void showValue(const Case &c, std::ostream &os) { os << ser(c); }

int main(int argc, char **argv) {
    parse_args(argc, argv);
    Ctx &c = ctx();
    if(!c.kv.count("budget")) c.cpu_budget_s = 120; else c.cpu_budget_s = c.opt("budget", 120);
    if(c.mode == "replay") return replay_main([](const std::string &s) { Info info; run(deser(s), info); });
    pbt("c13_audio_fill_and_format", c.n, 30, []() {
        Case cs;
        cs.emu = *rc::gen::weightedElement<int>({{6, EMU_NP2}, {6, EMU_GENS}, {3, EMU_MAME}, {2, EMU_MAME2608}, {2, EMU_YMFM_OPN2}, {1, EMU_YMFM_OPNA}, {1, EMU_NUKED3438}, {1, EMU_NUKED2612}});
        cs.chips = *rc::gen::weightedElement<int>({{4, 1}, {3, 2}, {1, 3}, {2, 4}});
        cs.loud = *rng<int>(0, 1); cs.rate_idx = *rng<int>(0, 3); cs.with_song = *rng<int>(0, 1);
        cs.calls = *rc::gen::resize(6, rc::gen::container<std::vector<ACall>>(genCall(cs.with_song != 0)));
        // slow cores: keep requests small
        double w = (cs.emu == EMU_NUKED3438 || cs.emu == EMU_NUKED2612) ? 60 : (cs.emu == EMU_NP2 || cs.emu == EMU_GENS ? 1 : 6);
        double budget = 400000;
        for(ACall &a : cs.calls) { double cost = (a.n > 0 ? a.n / 2 : 0) * w * cs.chips; if(cost > budget) a.n = (int)(budget / (w * cs.chips)) * 2; budget -= (a.n > 0 ? a.n / 2 : 0) * w * cs.chips; if(budget < 0) budget = 0; }
        // a refused call may still have consumed a mixing period inside the synth (the statement is silent on that), so
        // refused calls are placed after all accepted ones: the F64 twin then shares the history of every compared call
        std::stable_partition(cs.calls.begin(), cs.calls.end(), [](const ACall &a) { return a.fn == 0 || a.fn == 2 || supported(a.type, a.cont); });
        std::string s = ser(cs);
        run_case(s, [&] {
            Info info; run(cs, info);
            Stats &st = ctx().stats;
            st.note_case(s, info.signal && info.formats > 0);
            if(info.clipped) st.label("mix_exceeds_int16(clipping)"); if(info.planar) st.label("planar_layout"); if(info.multi_period) st.label("request_spans_periods(>1024)");
            if(info.song_end) st.label("song_end_reached_in_play"); st.label(std::string("emu:") + kEmuName[cs.emu]); st.label("supported_format_calls_compared", (uint64_t)info.formats);
        });
    });
    return finish();
}
