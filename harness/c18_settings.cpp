// C18: settings are transactional - accepted values stick, rejected change nothing.
// Engine: rapidcheck call histories; oracle = reference model of the requested configuration (getter vector after every call)
// + differential twin (same history without the rejected calls) probed with a rendered phrase.
#include "common/ops.hpp"
#include "common/rc_util.hpp"
#include <climits>

using namespace vf;

enum SK { S_CHIPS, S_EMU, S_LFOEN, S_LFOFREQ, S_CHIPTYPE, S_VOLMODEL, S_ALLOC, S_ARP, S_DEVID, S_SCALEMOD, S_FULLBRIGHT, S_SOFTPAN, S_PCMRATE, S_HOOK,
          S_RESET, S_BANK, S_MUSIC, S_BADBANKID, S_BADTRACK, S_BADCHANNEL, S_NOTE, S_LOOPEN, S_LOOPCOUNT, S_TEMPO, S_HOOKSONLY, S_LOGVOL, S_NK };
static const char *const sname[S_NK] = {"chips", "emu", "lfoen", "lfofreq", "chiptype", "volmodel", "alloc", "arp", "devid", "scalemod", "fullbright", "softpan", "pcmrate", "hook",
                                        "reset", "bank", "music", "badbankid", "badtrack", "badchannel", "note", "loopen", "loopcount", "tempo", "hooksonly", "logvol"};
struct SOp { int kind = 0; long long a = 0; int b = 0; };
static std::string ser(const std::vector<SOp> &v) { std::ostringstream o; for(const SOp &p : v) o << sname[p.kind] << " " << p.a << " " << p.b << "\n"; return o.str(); }
static std::vector<SOp> deser(const std::string &s) {
    std::vector<SOp> v; std::istringstream in(s); std::string w;
    while(in >> w) { SOp p; p.kind = -1; for(int i = 0; i < S_NK; i++) if(w == sname[i]) p.kind = i; in >> p.a >> p.b; if(p.kind >= 0) v.push_back(p); }
    return v;
}

static void h_raw(void *, OPN2_UInt8, OPN2_UInt8, OPN2_UInt8, const OPN2_UInt8 *, size_t) {}
static void h_note(void *, int, int, int, int, double) {}
static void h_dbg(void *, const char *, ...) {}
static void h_loop(void *) {}
static void h_loop2(void *) {}

static const std::string &bank_image(int which) {
    static std::string a, b, bad1, bad2;
    if(a.empty()) { a = default_wopn_image(0x0B, 1); b = default_wopn_image(0x05, 0); bad1 = a.substr(0, a.size() - 7); bad2 = std::string("WOPN2-B2NX\0\2\0", 13) + a.substr(13); }
    switch(which % 4) { case 0: return a; case 1: return b; case 2: return bad1; default: return bad2; }
}
static const std::string &music_image(int which) {
    static std::string a, b, bad1, bad2;
    if(a.empty()) { a = tiny_smf(0, 60, 3); b = tiny_smf(9, 36, 5); bad1 = a.substr(0, 17); bad2 = std::string("MThd\0\0\0\6\0\0\0\1\0\0", 14) + a.substr(14); bad2[12] = 0; bad2[13] = 0; bad2 = "NOPE" + a.substr(4); }
    switch(which % 4) { case 0: return a; case 1: return b; case 2: return bad1; default: return bad2; }
}

struct Model {
    int chips = 2, emu = 0, lfoen = -1, lfofreq = -1, chiptype = -1, volmodel = 0, alloc = -1, arp = 0, devid = 0;
    int scalemod = 0, fullbright = 0, softpan = 0, pcmrate = 0;
    bool hook[5] = {false, false, false, false, false}; int loop_variant = 0;
    int bank_lfo = 0, bank_chip = 0; bool bank_loaded = false; uint64_t bank_fp = 0;
    bool vgm_seen = false;
    // sequencer-side settings (no public getters: read from the instance) and the deprecated logarithmic-volumes switch
    int loopen = 0, loopcount = -1, hooksonly = 0; double tempo = 1.0; int logvol_model = -1; // logvol_model: volume model in force since opn2_setLogarithmicVolumes(non-zero), -1 = not in force
};
static const double kTempo[] = {1.0, 0.5, 2.0, 0.25, 0.0, -1.0, 1e-3, 100.0};

static uint64_t bank_fingerprint(OPN2_MIDIPlayer *d) {
    uint64_t h = 1469598103934665603ULL; OPN2_Bank b; int r = opn2_getFirstBank(d, &b);
    std::vector<uint64_t> parts;
    while(r == 0) {
        OPN2_BankId id; opn2_getBankId(d, &b, &id); uint64_t hh = fnv(&id, 3);
        for(unsigned i = 0; i < 128; i++) { OPN2_Instrument in; memset(&in, 0, sizeof in); opn2_getInstrument(d, &b, i, &in); hh = fnv(&in.note_offset, 2, hh); hh = fnv(&in.percussion_key_number, 4, hh); hh = fnv(in.operators, sizeof in.operators, hh); hh = fnv(&in.delay_on_ms, 4, hh); }
        parts.push_back(hh); r = opn2_getNextBank(d, &b);
    }
    std::sort(parts.begin(), parts.end());
    for(uint64_t p : parts) h = fnv(&p, 8, h);
    return h;
}

static void check_getters(const Inst &I, const Model &m, const char *when, size_t step) {
    OPN2_MIDIPlayer *d = I.dev; OPNMIDIplay *p = I.play();
    VCHECK(opn2_getNumChips(d) == m.chips, "step %zu (%s): getNumChips %d, requested %d", step, when, opn2_getNumChips(d), m.chips);
    if(!m.vgm_seen) VCHECK(opn2_getNumChipsObtained(d) == m.chips, "step %zu (%s): getNumChipsObtained %d, requested %d", step, when, opn2_getNumChipsObtained(d), m.chips);
    VCHECK(std::string(opn2_chipEmulatorName(d)).size() > 0, "no emulator name");
    VCHECK(p->m_setup.emulator == m.emu, "step %zu (%s): emulator in force is %d, requested %d", step, when, p->m_setup.emulator, m.emu);
    int want_lfoen = m.lfoen < 0 ? ((m.bank_lfo & 8) ? 1 : 0) : (m.lfoen ? 1 : 0);
    int want_lfofreq = m.lfofreq < 0 ? (m.bank_lfo & 7) : m.lfofreq;
    int want_chip = m.chiptype < 0 ? m.bank_chip : m.chiptype;
    int want_vol = m.logvol_model >= 0 ? m.logvol_model : (m.volmodel == 0 ? OPNMIDI_VolumeModel_Generic : m.volmodel);
    VCHECK(opn2_getLfoEnabled(d) == want_lfoen, "step %zu (%s): getLfoEnabled %d, expected %d (override %d, bank default %d)", step, when, opn2_getLfoEnabled(d), want_lfoen, m.lfoen, (m.bank_lfo & 8) ? 1 : 0);
    VCHECK(opn2_getLfoFrequency(d) == want_lfofreq, "step %zu (%s): getLfoFrequency %d, expected %d (override %d, bank default %d)", step, when, opn2_getLfoFrequency(d), want_lfofreq, m.lfofreq, m.bank_lfo & 7);
    VCHECK(opn2_getChipType(d) == want_chip, "step %zu (%s): getChipType %d, expected %d (override %d, bank default %d)", step, when, opn2_getChipType(d), want_chip, m.chiptype, m.bank_chip);
    VCHECK(opn2_getVolumeRangeModel(d) == want_vol, "step %zu (%s): getVolumeRangeModel %d, expected %d", step, when, opn2_getVolumeRangeModel(d), want_vol);
    VCHECK(opn2_getChannelAllocMode(d) == m.alloc, "step %zu (%s): getChannelAllocMode %d, expected %d", step, when, opn2_getChannelAllocMode(d), m.alloc);
    VCHECK(opn2_getAutoArpeggio(d) == m.arp, "step %zu (%s): getAutoArpeggio %d, expected %d", step, when, opn2_getAutoArpeggio(d), m.arp);
    VCHECK((int)p->m_sysExDeviceId == m.devid, "step %zu (%s): SysEx device id in force is %d, configured %d", step, when, (int)p->m_sysExDeviceId, m.devid);
    VCHECK((p->m_synth->m_scaleModulators ? 1 : 0) == m.scalemod && (p->m_setup.fullRangeBrightnessCC74 ? 1 : 0) == m.fullbright && (p->m_synth->m_softPanning ? 1 : 0) == m.softpan && (p->m_synth->m_runAtPcmRate ? 1 : 0) == m.pcmrate,
           "step %zu (%s): boolean setting lost (scaleModulators %d/%d fullRangeBrightness %d/%d softPan %d/%d runAtPcmRate %d/%d)", step, when,
           (int)p->m_synth->m_scaleModulators, m.scalemod, (int)p->m_setup.fullRangeBrightnessCC74, m.fullbright, (int)p->m_synth->m_softPanning, m.softpan, (int)p->m_synth->m_runAtPcmRate, m.pcmrate);
    VCHECK((p->m_sequencer->m_loopEnabled ? 1 : 0) == m.loopen && p->m_sequencer->m_loopCount == m.loopcount && p->m_sequencer->m_tempoMultiplier == m.tempo,
           "step %zu (%s): sequencer setting lost (loop enabled %d/%d, loop count %d/%d, tempo multiplier %g/%g)", step, when, (int)p->m_sequencer->m_loopEnabled, m.loopen, p->m_sequencer->m_loopCount, m.loopcount, p->m_sequencer->m_tempoMultiplier, m.tempo);
    if(m.emu != EMU_VGM) VCHECK((p->m_sequencer->m_loopHooksOnly ? 1 : 0) == m.hooksonly, "step %zu (%s): 'loop hooks only' is %d, last set to %d", step, when, (int)p->m_sequencer->m_loopHooksOnly, m.hooksonly);
    // registered callbacks
    VCHECK((p->m_sequencerInterface->onEvent != NULL) == m.hook[0], "step %zu (%s): raw event hook %s", step, when, m.hook[0] ? "was dropped" : "appeared");
    VCHECK((p->hooks.onNote != NULL) == m.hook[1], "step %zu (%s): note hook %s", step, when, m.hook[1] ? "was dropped" : "appeared");
    VCHECK((p->hooks.onDebugMessage != NULL) == m.hook[2] && (p->m_sequencerInterface->onDebugMessage != NULL) == m.hook[2], "step %zu (%s): debug hook %s", step, when, m.hook[2] ? "was dropped" : "appeared");
    if(m.emu != EMU_VGM) {
        VCHECK((p->m_sequencerInterface->onloopStart != NULL) == m.hook[3], "step %zu (%s): loop-start hook %s", step, when, m.hook[3] ? "was dropped (the sequencer would not call it)" : "appeared");
        VCHECK((p->m_sequencerInterface->onloopEnd != NULL) == m.hook[4], "step %zu (%s): loop-end hook %s", step, when, m.hook[4] ? "was dropped (the sequencer would not call it)" : "appeared");
        if(m.hook[3]) VCHECK(p->m_sequencerInterface->onloopStart == (m.loop_variant ? h_loop2 : h_loop), "step %zu (%s): loop-start hook is not the registered function", step, when);
    }
    if(m.bank_loaded) VCHECK(bank_fingerprint(d) == m.bank_fp, "step %zu (%s): the loaded bank changed", step, when);
}

struct Info { unsigned rejected = 0, rejected_then_reset = 0, accepted_then_churn = 0; bool probe_equal = false; };

// applies one op; returns true when the call reported failure (and must be skipped on the twin)
static bool apply(Inst &I, Model *m, const SOp &p, bool &is_churn) {
    OPN2_MIDIPlayer *d = I.dev; is_churn = false;
    switch(p.kind) {
    case S_CHIPS: { int r = opn2_setNumChips(d, (int)p.a); bool ok = p.a >= 1 && p.a <= 100; VCHECK((r == 0) == ok, "setNumChips(%lld) returned %d", p.a, r); if(ok && m) m->chips = (int)p.a; return !ok; }
    case S_EMU: { int r = opn2_switchEmulator(d, (int)p.a); bool ok = p.a >= 0 && p.a <= 8; VCHECK((r == 0) == ok, "switchEmulator(%lld) returned %d", p.a, r); if(ok && m) { m->emu = (int)p.a; if(p.a == EMU_VGM) m->vgm_seen = true; } is_churn = ok; return !ok; }
    case S_LFOEN: opn2_setLfoEnabled(d, (int)p.a); if(m) m->lfoen = (int)p.a; return false;
    case S_LFOFREQ: opn2_setLfoFrequency(d, (int)p.a); if(m) m->lfofreq = (int)p.a; return false;
    case S_CHIPTYPE: opn2_setChipType(d, (int)p.a); if(m && p.a >= -1 && p.a <= 1) m->chiptype = (int)p.a; return !(p.a >= -1 && p.a <= 1);
    case S_VOLMODEL: opn2_setVolumeRangeModel(d, (int)p.a); if(m && p.a >= 0 && p.a <= 5) { m->volmodel = (int)p.a; m->logvol_model = -1; } return !(p.a >= 0 && p.a <= 5);
    case S_ALLOC: opn2_setChannelAllocMode(d, (int)p.a); if(m) m->alloc = (int)p.a; return false;
    case S_ARP: opn2_setAutoArpeggio(d, (int)p.a); if(m) m->arp = p.a ? 1 : 0; return false;
    case S_DEVID: { int r = opn2_setDeviceIdentifier(d, (unsigned)p.a); bool ok = (unsigned)p.a <= 15; VCHECK((r == 0) == ok, "setDeviceIdentifier(%lld) returned %d", p.a, r); if(ok && m) m->devid = (int)p.a; return !ok; }
    case S_SCALEMOD: opn2_setScaleModulators(d, (int)p.a); if(m) m->scalemod = p.a == 0 ? 0 : p.a == 1 ? 1 : (I.play()->m_synth->m_scaleModulators ? 1 : 0) /* -1 = 'bank default': what is in force now must stay in force */; return false;
    case S_FULLBRIGHT: opn2_setFullRangeBrightness(d, (int)p.a); if(m) m->fullbright = p.a ? 1 : 0; return false;
    case S_SOFTPAN: opn2_setSoftPanEnabled(d, (int)p.a); if(m) m->softpan = p.a ? 1 : 0; return false;
    case S_PCMRATE: { int r = opn2_setRunAtPcmRate(d, (int)p.a); VCHECK(r == 0, "setRunAtPcmRate returned %d", r); if(m) m->pcmrate = p.a ? 1 : 0; return false; }
    case S_HOOK: {
        bool on = p.b != 0;
        switch(p.a % 5) {
        case 0: opn2_setRawEventHook(d, on ? h_raw : NULL, NULL); break;
        case 1: opn2_setNoteHook(d, on ? h_note : NULL, NULL); break;
        case 2: opn2_setDebugMessageHook(d, on ? h_dbg : NULL, NULL); break;
        case 3: opn2_setLoopStartHook(d, on ? (p.b == 2 ? h_loop2 : h_loop) : NULL, NULL); if(m) m->loop_variant = p.b == 2; break;
        default: opn2_setLoopEndHook(d, on ? h_loop : NULL, NULL); break;
        }
        if(m) m->hook[p.a % 5] = on;
        return false;
    }
    case S_RESET: opn2_reset(d); is_churn = true; return false;
    case S_BANK: {
        const std::string &img = bank_image((int)p.a);
        int r = opn2_openBankData(d, img.data(), (long)img.size());
        bool ok = (p.a % 4) < 2;
        VCHECK((r == 0) == ok, "openBankData(image %lld) returned %d", p.a % 4, r);
        if(!ok) VCHECK(opn2_errorInfo(d)[0] != 0, "rejected bank left no error text");
        if(ok && m) { m->bank_lfo = (p.a % 4) == 0 ? 0x0B : 0x05; m->bank_chip = (p.a % 4) == 0 ? 1 : 0; m->lfoen = -1; m->lfofreq = -1; m->chiptype = -1; m->volmodel = 0; if(m->logvol_model >= 0) { int now = opn2_getVolumeRangeModel(d); m->logvol_model = (now == OPNMIDI_VolumeModel_Generic) ? -1 : now; } /* the statement does not say whether a bank load also ends the deprecated logarithmic-volumes switch: either outcome, but stable from here on */ m->bank_loaded = true; m->bank_fp = bank_fingerprint(d); }
        is_churn = ok; return !ok;
    }
    case S_MUSIC: {
        const std::string &img = music_image((int)p.a);
        int r = opn2_openData(d, img.data(), (unsigned long)img.size());
        bool ok = (p.a % 4) < 2;
        VCHECK((r == 0) == ok, "openData(image %lld) returned %d (%s)", p.a % 4, r, opn2_errorInfo(d));
        if(!ok) {
            VCHECK(opn2_errorInfo(d)[0] != 0, "rejected music file left no error text");
            // the instance must be able to load a valid file next; this is done on a throw-away basis by the caller
        }
        is_churn = ok; return !ok;
    }
    case S_BADBANKID: { OPN2_BankId id; id.percussive = (OPN2_UInt8)(p.b == 0 ? 2 : 0); id.msb = (OPN2_UInt8)(p.b == 1 ? 128 : 0); id.lsb = (OPN2_UInt8)(p.b == 2 ? 200 : 0); OPN2_Bank b; int r = opn2_getBank(d, &id, OPNMIDI_Bank_Create, &b); VCHECK(r == -1, "invalid bank id accepted"); return true; }
    case S_BADTRACK: { int r = opn2_setTrackOptions(d, opn2_trackCount(d) + (size_t)p.b, OPNMIDI_TrackOption_Off); VCHECK(r == -1, "setTrackOptions on a non-existing track returned %d", r); return true; }
    case S_BADCHANNEL: { int r = opn2_setChannelEnabled(d, 16 + (size_t)p.b, 0); VCHECK(r == -1, "setChannelEnabled(>=16) returned %d", r); return true; }
    case S_NOTE: opn2_rt_noteOn(d, 0, (OPN2_UInt8)(60 + p.b % 12), 100); return false;
    case S_LOOPEN: opn2_setLoopEnabled(d, (int)p.a); if(m) m->loopen = p.a ? 1 : 0; return false;
    case S_LOOPCOUNT: opn2_setLoopCount(d, (int)p.a); if(m) m->loopcount = I.play()->m_sequencer->m_loopCount /* no getter and an internal encoding: what the setter put in force must stay in force */; return false;
    case S_TEMPO: { double t = kTempo[(size_t)p.a % 8]; opn2_setTempo(d, t); if(t > 0 && m) m->tempo = t; return !(t > 0); } // documented: values <= 0 are ignored
    case S_HOOKSONLY: opn2_setLoopHooksOnly(d, (int)p.a); if(m) m->hooksonly = p.a ? 1 : 0; return false;
    case S_LOGVOL: { // deprecated switch: whatever volume model it puts in force must stay in force until the model is set again / a bank is loaded
        bool usable = !m || (m->volmodel == 0 && m->logvol_model < 0) || p.a != 0; (void)usable;
        opn2_setLogarithmicVolumes(d, (int)p.a);
        if(m) m->logvol_model = p.a ? opn2_getVolumeRangeModel(d) : -1;
        return false; }
    }
    return false;
}

struct ProbeOut { std::vector<short> pcm; std::vector<TapRec> regs; };
static ProbeOut probe(Inst &I) {
    ProbeOut o; OPN2_MIDIPlayer *d = I.dev;
    tap_install(); tap().log.clear(); tap().frames = 0; tap().only_synth = I.play()->m_synth.get(); tap().only_player = I.play();
    long rate = (long)I.play()->m_setup.PCM_RATE; int n = (int)(rate / 50) * 2;
    if(opn2_getNumChipsObtained(d) > 4) n = 64; // many chips (up to 100): a short phrase keeps slow cores affordable
    std::vector<short> buf((size_t)n);
    opn2_panic(d);
    auto seg = [&]() { int r = opn2_generate(d, n, buf.data()); o.pcm.insert(o.pcm.end(), buf.begin(), buf.begin() + r); };
    opn2_rt_controllerChange(d, 0, 7, 90); opn2_rt_noteOn(d, 0, 60, 100); seg();
    opn2_rt_pitchBend(d, 0, 10000); opn2_rt_noteOn(d, 0, 64, 80); seg();
    opn2_rt_noteOn(d, 9, 38, 120); opn2_rt_controllerChange(d, 0, 1, 40); seg();
    opn2_panic(d); seg();
    o.regs = tap().log;
    tap().only_synth = nullptr; tap().only_player = nullptr; tap().log.clear();
    return o;
}

static void run(const std::vector<SOp> &ops, Info &info) {
    opnmidi_verif_tap = NULL; opnmidi_verif_frames = NULL;
    Inst A(22050), B(22050);
    VCHECK(A.dev && B.dev, "init failed");
    Model m;
    // both start with a valid bank so that probes can sound
    { SOp b0; b0.kind = S_BANK; b0.a = 1; bool ch; apply(A, &m, b0, ch); apply(B, NULL, b0, ch); }
    check_getters(A, m, "initial bank", 0);
    bool pending_rejected = false; int since_accept = -1;
    for(size_t i = 0; i < ops.size(); i++) {
        const SOp &p = ops[i];
        bool churn = false, churn2;
        Model before = m;
        bool rejected = apply(A, &m, p, churn);
        if(rejected) {
            info.rejected++; pending_rejected = true;
            // nothing observable may have changed
            check_getters(A, before, (std::string("rejected ") + sname[p.kind]).c_str(), i + 1);
            if(p.kind == S_MUSIC) { // the instance must be able to load a valid file next: check on a clone of the history? - done directly, then mirrored on the twin
                const std::string &ok = music_image(0);
                VCHECK(opn2_openData(A.dev, ok.data(), (unsigned long)ok.size()) == 0, "step %zu: a valid file does not load after a rejected one: %s", i + 1, opn2_errorInfo(A.dev));
                VCHECK(opn2_openData(B.dev, ok.data(), (unsigned long)ok.size()) == 0, "twin: valid file rejected");
                check_getters(A, m, "valid load after rejected music", i + 1);
            }
        } else {
            apply(B, NULL, p, churn2);
            check_getters(A, m, sname[p.kind], i + 1);
            if(churn && pending_rejected) { info.rejected_then_reset++; pending_rejected = false; }
            if(p.kind <= S_PCMRATE || p.kind >= S_LOOPEN) since_accept = 0; else if(churn && since_accept >= 0) { if(++since_accept >= 2) info.accepted_then_churn++; }
        }
    }
    // audible behaviour: the instance that saw the rejected calls must render the probe phrase exactly like the twin that did not
    ProbeOut pa = probe(A), pb = probe(B);
    opnmidi_verif_tap = NULL; opnmidi_verif_frames = NULL;
    VCHECK(pa.regs.size() == pb.regs.size(), "probe: register stream length differs between the instance (%zu writes) and its twin without the rejected calls (%zu)", pa.regs.size(), pb.regs.size());
    for(size_t k = 0; k < pa.regs.size(); k++) VCHECK(pa.regs[k] == pb.regs[k], "probe: register write %zu differs (reg 0x%02X val 0x%02X vs reg 0x%02X val 0x%02X)", k, pa.regs[k].reg, pa.regs[k].val, pb.regs[k].reg, pb.regs[k].val);
    VCHECK(pa.pcm == pb.pcm, "probe: rendered audio differs between the instance and its twin without the rejected calls");
    info.probe_equal = true;
}

static rc::Gen<SOp> genOp() {
    using namespace rc;
    auto kind = gen::weightedElement<int>({{6, S_CHIPS}, {6, S_EMU}, {3, S_LFOEN}, {3, S_LFOFREQ}, {4, S_CHIPTYPE}, {4, S_VOLMODEL}, {2, S_ALLOC}, {2, S_ARP}, {4, S_DEVID}, {2, S_SCALEMOD}, {1, S_FULLBRIGHT},
                                           {1, S_SOFTPAN}, {1, S_PCMRATE}, {5, S_HOOK}, {5, S_RESET}, {6, S_BANK}, {6, S_MUSIC}, {1, S_BADBANKID}, {1, S_BADTRACK}, {1, S_BADCHANNEL}, {2, S_NOTE}, {2, S_LOOPEN}, {2, S_LOOPCOUNT}, {2, S_TEMPO}, {2, S_HOOKSONLY}, {1, S_LOGVOL}});
    return gen::map(gen::tuple(kind, rng<int>(0, 1000), rng<int>(0, 1000)), [](std::tuple<int, int, int> t) {
        int k = std::get<0>(t), a = std::get<1>(t), b = std::get<2>(t); SOp p; p.kind = k; p.b = b % 3;
        switch(k) {
        case S_CHIPS: { static const long long v[] = {0, 1, 2, 3, 100, 101, -1, INT_MIN, INT_MAX, 4, 1, 2}; p.a = v[a % 12]; break; }
        case S_EMU: { static const long long v[] = {0, 1, 2, 3, 4, 5, 6, 8, 4, 2, 0, -1, -2, 9, 10, 12, 32, 40, 7}; p.a = v[a % 19]; break; }
        case S_LFOEN: p.a = (a % 3) - 1; break;
        case S_LFOFREQ: p.a = (a % 9) - 1; break;
        case S_CHIPTYPE: { static const long long v[] = {-1, 0, 1, 0, 1, 2, 5, -2}; p.a = v[a % 8]; break; }
        case S_VOLMODEL: { static const long long v[] = {0, 1, 2, 3, 4, 5, 6, -1, 100, 3}; p.a = v[a % 10]; break; }
        case S_ALLOC: p.a = (a % 4) - 1; break;
        case S_DEVID: { static const long long v[] = {0, 1, 7, 15, 16, 255, 3, 9}; p.a = v[a % 8]; break; }
        case S_HOOK: p.a = a % 5; p.b = b % 3; break;
        case S_BANK: case S_MUSIC: p.a = a % 4; break;
        case S_SCALEMOD: { static const long long v[] = {0, 1, -1, 1, 0, -1}; p.a = v[a % 6]; break; }
        case S_LOOPCOUNT: p.a = (a % 6) - 1; break;
        case S_TEMPO: p.a = a % 8; break;
        default: p.a = a & 1; break;
        }
        return p;
    });
}
namespace rc { template <> struct Arbitrary<SOp> { static Gen<SOp> arbitrary() { return genOp(); } }; }
void showValue(const SOp &p, std::ostream &os) { os << sname[p.kind] << "(" << p.a << "," << p.b << ")"; }

int main(int argc, char **argv) {
    parse_args(argc, argv);
    Ctx &c = ctx();
    if(!c.kv.count("budget")) c.cpu_budget_s = 120; else c.cpu_budget_s = c.opt("budget", 120);
    if(c.mode == "replay") return replay_main([](const std::string &s) { Info info; run(deser(s), info); });
    pbt("c18_settings_transactional", c.n, 40, [](const std::vector<SOp> &ops) {
        std::string s = ser(ops);
        run_case(s, [&] {
            Info info; run(ops, info);
            Stats &st = ctx().stats;
            st.note_case(s, info.rejected_then_reset > 0 || info.accepted_then_churn > 0);
            st.label("rejected_calls", info.rejected); st.label("rejected_then_reset/switch/load", info.rejected_then_reset); st.label("accepted_setter_then_>=2_churn_ops", info.accepted_then_churn);
            for(const SOp &p : ops) st.label(std::string("op:") + sname[p.kind]);
        });
    });
    return finish();
}
