// C19: only well-formed, correctly addressed SysEx messages take effect.
// Engine: rapidcheck (mutations of the recognised messages + random strings) and libFuzzer (-DVERIF_FUZZ) over raw bytes;
// oracle = independent validator written from the property text + full state snapshot / tap comparison.
#include "common/ops.hpp"
#include <set>
#ifdef VERIF_FUZZ
#include "common/fuzz_util.hpp"
#else
#include "common/rc_util.hpp"
#endif

using namespace vf;
typedef std::vector<uint8_t> Msg;

struct Case { int devid = 0; int prior_mode = 0; std::vector<Op> prior; Msg msg; };
static std::string ser(const Case &c) {
    std::ostringstream o; o << "cfg " << c.devid << " " << c.prior_mode << " " << (c.msg.empty() ? "-" : hex(c.msg.data(), c.msg.size())) << "\n" << ser_ops(c.prior);
    return o.str();
}
static Case deser(const std::string &s) {
    Case c; std::istringstream in(s); std::string w, h; in >> w >> c.devid >> c.prior_mode >> h; if(h != "-") c.msg = unhex(h); c.prior = deser_ops(in); return c;
}

// ---------------------------------------------------------------- independent validator
enum Eff { E_REJECT, E_EXCLUDED, E_GM_ON, E_GM_OFF, E_GS, E_XG, E_MASTERVOL, E_DRUMPART };
struct Verdict { Eff e = E_REJECT; int value = 0, part = 0; };
static Verdict validate(const Msg &m, int id) {
    Verdict v; size_t n = m.size();
    if(n < 4 || m[0] != 0xF0 || m[n - 1] != 0xF7) return v;
    for(size_t i = 1; i + 1 < n; i++) if(m[i] >= 0x80) { v.e = E_EXCLUDED; return v; } // data bytes are 7-bit; the statement is silent about others
    unsigned man = m[1], dev = m[2];
    Msg body(m.begin() + 3, m.end() - 1);
    if(man == 0x7E || man == 0x7F) {
        if(!(dev == 0x7F || (int)dev == id)) return v;
        if(man == 0x7E) {
            if(body == Msg{0x09, 0x01}) v.e = E_GM_ON; else if(body == Msg{0x09, 0x02}) v.e = E_GM_OFF;
        } else {
            if(body.size() == 4 && body[0] == 0x04 && body[1] == 0x01) { v.e = E_MASTERVOL; v.value = body[3]; }
        }
        return v;
    }
    if(man == 0x41) {
        if(dev == 0x7F) { v.e = E_EXCLUDED; return v; } // 'broadcast' exists for Universal messages only; left out of the verdict
        if((int)dev != (0x10 | id)) return v;
        if(body.size() != 7 || body[0] != 0x42 || body[1] != 0x12) return v;
        unsigned sum = body[2] + body[3] + body[4] + body[5];
        if(((128 - (sum % 128)) % 128) != body[6]) return v;
        if(body[2] == 0x00 && body[3] == 0x00 && body[4] == 0x7F) v.e = E_GS;
        else if(body[2] == 0x40 && body[3] == 0x00 && body[4] == 0x7F) v.e = E_GS;
        else if(body[2] == 0x40 && (body[3] & 0xF0) == 0x10 && body[4] == 0x15) { v.e = E_DRUMPART; v.part = body[3] & 0x0F; v.value = body[5]; }
        return v;
    }
    if(man == 0x43) {
        if(dev == 0x7F) { v.e = E_EXCLUDED; return v; }
        if((int)dev != (0x10 | id)) return v;
        if(body.size() == 5 && body[0] == 0x4C && body[1] == 0x00 && body[2] == 0x00 && body[3] == 0x7E) v.e = E_XG;
        return v;
    }
    return v;
}

// ---------------------------------------------------------------- state snapshot
struct ChanState { int f[22]; };
struct Full { unsigned mode; int mastervol; std::vector<ChanState> ch; Snapshot voices; };
static Full full_snapshot(const Inst &I) {
    Full s; OPNMIDIplay *p = I.play();
    s.mode = p->m_synthMode; s.mastervol = p->m_synth->m_masterVolume;
    for(size_t i = 0; i < p->m_midiChannels.size(); i++) {
        const OPNMIDIplay::MIDIchannel &c = p->m_midiChannels[i];
        ChanState cs = {{c.bank_lsb, c.bank_msb, c.patch, c.volume, c.expression, c.panning, c.vibrato, c.aftertouch, c.portamento, c.sustain, c.softPedal, c.portamentoEnable,
                         c.bend, c.bendsense_lsb, c.bendsense_msb, c.lastlrpn, c.lastmrpn, c.nrpn, c.brightness, c.is_xg_percussion, c.noteAfterTouchInUse, (int)c.portamentoSource}};
        s.ch.push_back(cs);
    }
    s.voices = take_snapshot(I);
    return s;
}
static const char *const fld[22] = {"bank_lsb", "bank_msb", "patch", "volume", "expression", "panning", "vibrato", "aftertouch", "portamento", "sustain", "softPedal", "portamentoEnable",
                                    "bend", "bendsense_lsb", "bendsense_msb", "lastlrpn", "lastmrpn", "nrpn", "brightness", "is_xg_percussion", "noteAfterTouchInUse", "portamentoSource"};
static void expect_same(const Full &a, const Full &b, const char *what, int skip_ch = -1, int skip_field = -1) {
    VCHECK(a.mode == b.mode, "%s: synth mode changed %u -> %u", what, a.mode, b.mode);
    VCHECK(a.mastervol == b.mastervol, "%s: master volume changed %d -> %d", what, a.mastervol, b.mastervol);
    VCHECK(a.ch.size() == b.ch.size(), "%s: number of MIDI channels changed", what);
    for(size_t i = 0; i < a.ch.size(); i++) for(int k = 0; k < 22; k++) {
        if((int)i == skip_ch && k == skip_field) continue;
        VCHECK(a.ch[i].f[k] == b.ch[i].f[k], "%s: channel %zu %s changed %d -> %d", what, i, fld[k], a.ch[i].f[k], b.ch[i].f[k]);
    }
    VCHECK(a.voices.nchan == b.voices.nchan, "%s: chip channel count changed", what);
    for(size_t c = 0; c < a.voices.nchan; c++) {
        VCHECK(a.voices.users[c].size() == b.voices.users[c].size(), "%s: users of chip channel %zu changed (%zu -> %zu)", what, c, a.voices.users[c].size(), b.voices.users[c].size());
        for(size_t k = 0; k < a.voices.users[c].size(); k++) {
            const SnapUser &x = a.voices.users[c][k], &y = b.voices.users[c][k];
            VCHECK(x.midch == y.midch && x.note == y.note && x.sustained == y.sustained, "%s: user %zu of chip channel %zu changed", what, k, c);
        }
    }
    for(size_t m = 0; m < a.voices.notes.size(); m++) {
        VCHECK(a.voices.notes[m].size() == b.voices.notes[m].size(), "%s: sounding notes of MIDI channel %zu changed (%zu -> %zu)", what, m, a.voices.notes[m].size(), b.voices.notes[m].size());
        for(size_t k = 0; k < a.voices.notes[m].size(); k++) VCHECK(a.voices.notes[m][k].note == b.voices.notes[m][k].note && a.voices.notes[m][k].chans == b.voices.notes[m][k].chans, "%s: note list of MIDI channel %zu changed", what, m);
    }
}

static const int kDrumMap[16] = {9, 0, 1, 2, 3, 4, 5, 6, 7, 8, 10, 11, 12, 13, 14, 15};
struct Info { Eff verdict = E_REJECT; bool accepted = false; bool had_notes = false; };

static Msg addressed(int which, int id) { // valid mode messages addressed to this device, for building prior state
    switch(which % 4) {
    case 0: return Msg{0xF0, 0x7E, (uint8_t)id, 0x09, 0x01, 0xF7};
    case 1: return Msg{0xF0, 0x41, (uint8_t)(0x10 | id), 0x42, 0x12, 0x40, 0x00, 0x7F, 0x00, 0x41, 0xF7};
    case 2: return Msg{0xF0, 0x43, (uint8_t)(0x10 | id), 0x4C, 0x00, 0x00, 0x7E, 0x00, 0xF7};
    default: return Msg{0xF0, 0x7E, 0x7F, 0x09, 0x02, 0xF7};
    }
}

static void run(const Case &c, Info &info) {
    World W; W.start(8000, EMU_NP2, 1);
    OPN2_MIDIPlayer *d = W.I.dev;
    VCHECK(opn2_setDeviceIdentifier(d, (unsigned)c.devid) == 0, "setDeviceIdentifier(%d) failed", c.devid);
    { Msg pm = addressed(c.prior_mode, c.devid); Msg ex(pm); int r = opn2_rt_systemExclusive(d, ex.data(), ex.size()); VCHECK(r == 1, "valid prior mode message %d addressed to id %d was rejected", c.prior_mode % 4, c.devid); }
    for(const Op &p : c.prior) W.apply(p);
    W.drain_tap();
    Full before = full_snapshot(W.I);
    for(auto &v : before.voices.notes) for(auto &n : v) if(!n.blank) info.had_notes = true;
    size_t tap0 = tap().log.size();
    uint64_t taptotal0 = tap().total;
    Msg exact(c.msg); // exact-size heap copy: ASan sees any read past the message
    int r = opn2_rt_systemExclusive(d, exact.empty() ? (const OPN2_UInt8 *)"" : exact.data(), exact.size());
    uint64_t writes = tap().total - taptotal0;
    W.drain_tap();
    Full after = full_snapshot(W.I);
    Verdict v = validate(c.msg, c.devid);
    info.verdict = v.e; info.accepted = r == 1;
    VCHECK(r == 0 || r == 1, "rt_systemExclusive returned %d", r);
    if(v.e == E_EXCLUDED) return; // executed for memory safety only
    std::string mh = hex(c.msg.data(), c.msg.size());
    if(v.e == E_REJECT) {
        VCHECK(r == 0, "message %s (device id %d) is not well-formed/addressed to this device but was reported accepted", mh.c_str(), c.devid);
        expect_same(before, after, "rejected message");
        VCHECK(writes == 0, "rejected message %s caused %llu chip register write(s)", mh.c_str(), (unsigned long long)writes);
        return;
    }
    VCHECK(r == 1, "valid message %s (device id %d) was reported rejected", mh.c_str(), c.devid);
    OPNMIDIplay *p = W.I.play();
    switch(v.e) {
    case E_GM_ON: case E_GM_OFF: case E_GS: case E_XG: {
        unsigned want = v.e == E_GM_ON ? OPNMIDIplay::Mode_GM : (v.e == E_GS ? OPNMIDIplay::Mode_GS : OPNMIDIplay::Mode_XG);
        VCHECK(after.mode == want, "mode switch %s: mode is %u, expected %u", mh.c_str(), after.mode, want);
        VCHECK(after.mastervol == 127, "mode switch: master volume %d not reset", after.mastervol);
        for(size_t i = 0; i < after.ch.size(); i++) {
            const OPNMIDIplay::MIDIchannel &ch = p->m_midiChannels[i];
            VCHECK(ch.volume == ch.def_volume && ch.expression == 127 && ch.panning == 64 && ch.bend == 0 && !ch.sustain && !ch.softPedal && ch.vibrato == 0 && ch.aftertouch == 0 &&
                   ch.brightness == 127 && ch.bendsense_msb == ch.def_bendsense_msb && ch.bendsense_lsb == ch.def_bendsense_lsb && !ch.portamentoEnable,
                   "mode switch %s: controllers of channel %zu were not reset (vol %d expr %d pan %d bend %d sustain %d)", mh.c_str(), i, ch.volume, ch.expression, ch.panning, ch.bend, (int)ch.sustain);
            VCHECK(after.voices.notes[i].empty(), "mode switch %s: channel %zu still has %zu sounding note(s)", mh.c_str(), i, after.voices.notes[i].size());
        }
        for(size_t k = 0; k < after.voices.nchan; k++) VCHECK(after.voices.users[k].empty() && !(k < W.keys.on.size() && W.keys.on[k]), "mode switch %s: chip channel %zu still in use / keyed on", mh.c_str(), k);
        // a GS reset puts every part back to its default use: custom drum-part assignments (made by a drum-part message or left over from XG drum banks) are gone
        if(v.e == E_GS) for(size_t i = 0; i < after.ch.size(); i++) VCHECK(!p->m_midiChannels[i].is_xg_percussion, "GS reset %s: channel %zu is still a custom drum part", mh.c_str(), i);
        break;
    }
    case E_MASTERVOL: {
        VCHECK(after.mastervol == v.value, "master volume message %s: volume is %d, expected %d", mh.c_str(), after.mastervol, v.value);
        Full b2 = before; b2.mastervol = after.mastervol;
        expect_same(b2, after, "master volume message (everything else)");
        if(info.had_notes && before.mastervol != after.mastervol) { // (an unchanged volume needs no register write)
            bool tl = false;
            for(size_t i = tap0; i < tap().log.size(); i++) if(tap().log[i].kind != 2 && tap().log[i].reg >= 0x40 && tap().log[i].reg <= 0x4F) tl = true;
            VCHECK(tl, "master volume message %s: no total-level register was rewritten although notes are sounding", mh.c_str());
        }
        break;
    }
    case E_DRUMPART: {
        int ch = kDrumMap[v.part];
        bool want = v.value == 1 || v.value == 2;
        VCHECK(p->m_midiChannels[(size_t)ch].is_xg_percussion == want, "drum-part message %s: channel %d percussion flag is %d, expected %d", mh.c_str(), ch, (int)p->m_midiChannels[(size_t)ch].is_xg_percussion, (int)want);
        expect_same(before, after, "drum-part message (everything else)", ch, 19);
        break;
    }
    default: break;
    }
}

static void account(const Case &c, const Info &info, bool neighbour) {
    Stats &st = ctx().stats;
    static const char *en[] = {"reject", "excluded", "gm_on", "gm_off", "gs", "xg", "mastervol", "drumpart"};
    bool nt = neighbour || (info.verdict >= E_GM_ON && c.devid != 0);
    st.note_case(ser(c), nt);
    st.label(std::string("verdict:") + en[info.verdict]);
    if(info.verdict == E_EXCLUDED) st.label("excluded_from_verdict");
    if(info.had_notes) st.label("prior_state_with_sounding_notes");
}

#ifdef VERIF_FUZZ
extern "C" int LLVMFuzzerInitialize(int *argc, char ***argv) { return fuzz_init(argc, argv); }
extern "C" int LLVMFuzzerTestOneInput(const uint8_t *data, size_t size) {
    Case c;
    if(size > 4 && memcmp(data, "cfg ", 4) == 0) c = deser(std::string((const char *)data, size));
    else {
        Bytes b(data, size);
        c.devid = (int)b.u(0, 15); c.prior_mode = (int)b.u(0, 3);
        int nn = (int)b.u(0, 3);
        for(int i = 0; i < nn; i++) c.prior.push_back(Op{O_NOTEON, (int)b.u(0, 1) * 9, 60 + (int)b.u(0, 3), 100});
        if(b.u(0, 1)) { c.prior.push_back(Op{O_CC, 0, 64, 127}); c.prior.push_back(Op{O_NOTEOFF, 0, 60, 0}); }
        std::string r = b.rest(); if(r.size() > 64) r.resize(64);
        c.msg.assign(r.begin(), r.end());
    }
    Info info; arm_watchdog(20);
    try { run(c, info); } catch(const Fail &f) { fprintf(stderr, "case:\n%s", ser(c).c_str()); fuzz_fail(f.msg); }
    account(c, info, info.verdict != E_REJECT || (c.msg.size() >= 4 && c.msg[0] == 0xF0 && c.msg.back() == 0xF7));
    return 0;
}
#else
struct GenMsg { Msg m; bool neighbour; };
static rc::Gen<GenMsg> genMsg(int id) {
    using namespace rc;
    return gen::map(gen::tuple(rng<int>(0, 7), rng<int>(0, 9), rng<int>(0, 127), rng<int>(0, 127), rng<int>(0, 11), rng<int>(0, 63), rng<int>(0, 255), gen::container<Msg>(rng<int>(0, 255))),
        [id](std::tuple<int, int, int, int, int, int, int, Msg> t) {
            int tmpl = std::get<0>(t), devsel = std::get<1>(t), v1 = std::get<2>(t), v2 = std::get<3>(t), mut = std::get<4>(t), pos = std::get<5>(t), nb = std::get<6>(t);
            GenMsg g; g.neighbour = true;
            if(tmpl == 7) { g.m = std::get<7>(t); if(g.m.size() > 64) g.m.resize(64); if(g.m.size() >= 2 && (nb & 1)) { g.m[0] = 0xF0; g.m.back() = 0xF7; } g.neighbour = false; return g; }
            bool universal = tmpl <= 2;
            int other = (id + 1 + v1 % 15) % 16;
            uint8_t dev;
            switch(devsel) { // mostly correctly addressed; some broadcast / wrong ids / wrong high nibble
            case 0: case 1: case 2: case 3: case 4: dev = (uint8_t)(universal ? id : (0x10 | id)); break;
            case 5: dev = 0x7F; break;
            case 6: dev = (uint8_t)(universal ? other : (0x10 | other)); break;
            case 7: dev = (uint8_t)(universal ? (0x10 | id) : id); break;
            case 8: dev = (uint8_t)(0x20 | id); break;
            default: dev = (uint8_t)(nb & 0x7F); break;
            }
            Msg m;
            switch(tmpl) {
            case 0: m = {0xF0, 0x7E, dev, 0x09, 0x01, 0xF7}; break;
            case 1: m = {0xF0, 0x7E, dev, 0x09, 0x02, 0xF7}; break;
            case 2: m = {0xF0, 0x7F, dev, 0x04, 0x01, (uint8_t)v1, (uint8_t)v2, 0xF7}; break;
            case 3: case 4: case 5: {
                uint8_t a1 = tmpl == 3 ? 0x00 : 0x40, a2 = tmpl == 5 ? (uint8_t)(0x10 | (v1 & 15)) : 0x00, a3 = tmpl == 5 ? 0x15 : 0x7F, dt = tmpl == 5 ? (uint8_t)(v2 % 4) : (uint8_t)(v2 & 0x7F);
                uint8_t ck = (uint8_t)((128 - ((a1 + a2 + a3 + dt) % 128)) % 128);
                m = {0xF0, 0x41, dev, 0x42, 0x12, a1, a2, a3, dt, ck, 0xF7}; break;
            }
            default: m = {0xF0, 0x43, dev, 0x4C, 0x00, 0x00, 0x7E, (uint8_t)(v2 & 0x7F), 0xF7}; break;
            }
            size_t p = m.empty() ? 0 : (size_t)pos % m.size();
            switch(mut) {
            case 0: case 1: case 2: break;                                                   // unmutated
            case 3: m.erase(m.begin() + (long)p); break;                                     // drop one byte
            case 4: m.insert(m.begin() + (long)p, m[p]); break;                              // duplicate one byte
            case 5: m.insert(m.begin() + (long)p, (uint8_t)(nb & 0x7F)); break;              // insert a byte
            case 6: m[p] = (uint8_t)nb; break;                                               // change a byte (any value)
            case 7: if(m.size() > 3) m[m.size() - 2] = (uint8_t)((m[m.size() - 2] + (nb & 1 ? 1 : 127)) & 0x7F); break; // last data byte / checksum +-1
            case 8: m.resize(p); break;                                                      // truncate
            case 9: m.insert(m.end() - 1, (uint8_t)(nb & 0x7F)); break;                      // one trailing data byte before F7
            case 10: m.push_back((uint8_t)nb); break;                                        // byte after F7
            default: m[p] = (uint8_t)(m[p] ^ (1u << (nb % 7))); break;                       // single bit flip
            }
            g.m = m; return g;
        });
}
static rc::Gen<std::vector<Op>> genPrior() {
    using namespace rc;
    auto op = gen::map(gen::tuple(rng<int>(0, 9), rng<int>(0, 1000), rng<int>(0, 1000)), [](std::tuple<int, int, int> t) {
        int k = std::get<0>(t), a = std::get<1>(t), b = std::get<2>(t);
        static const int chs[] = {0, 1, 9}; int ch = chs[a % 3];
        switch(k) {
        case 0: case 1: case 2: return Op{O_NOTEON, ch, 60 + b % 4, 1 + a % 127};
        case 3: return Op{O_NOTEOFF, ch, 60 + b % 4, 0};
        case 4: return Op{O_CC, ch, 64, (b & 1) ? 127 : 0};
        case 5: { static const int cc[] = {7, 11, 10, 1, 74, 65, 5, 67, 0, 32, 101, 100, 6, 0}; int ctl = cc[b % 14]; int val = a % 128; if(ctl == 0 && (a / 128) % 2) val = (a & 1) ? 127 : 126; /* XG drum banks: make the channel a drum part */ return Op{O_CC, ch, ctl, val}; }
        case 6: return Op{O_BEND, ch, (b * 37) % 16384, 0};
        case 7: return Op{O_PATCH, ch, b % 8, 0};
        case 8: return Op{O_ATCH, ch, b % 128, 0};
        default: return Op{O_ADVANCE, 5, 0, 0};
        }
    });
    return gen::resize(8, gen::container<std::vector<Op>>(op));
}
void showValue(const Case &c, std::ostream &os) { os << ser(c); }
namespace vf { void showValue(const Op &p, std::ostream &os) { os << kOpName[p.kind] << "(" << p.a << "," << p.b << "," << p.c << ")"; } }

int main(int argc, char **argv) {
    parse_args(argc, argv);
    Ctx &c = ctx();
    if(c.mode == "replay") return replay_main([](const std::string &s) { Info info; run(deser(s), info); });
    pbt("c19_sysex_validator", c.n, 60, []() {
        Case cs; cs.devid = *rng<int>(0, 15); cs.prior_mode = *rng<int>(0, 3); cs.prior = *genPrior();
        GenMsg g = *genMsg(cs.devid); cs.msg = g.m;
        std::string s = ser(cs);
        run_case(s, [&] { Info info; run(cs, info); account(cs, info, g.neighbour); });
    });
    return finish();
}
#endif
