// C15: WOPN/OPNI serialisation round-trips and never writes past its buffer.
// Engines: rapidcheck over bank/instrument *values* (mode pbt) and libFuzzer over byte strings (-DVERIF_FUZZ).
#include "common/verif.hpp"
#include <sstream>
#include <memory>
extern "C" {
#include "wopn_file.h"
}
#ifdef VERIF_FUZZ
#include "common/fuzz_util.hpp"
#else
#include "common/rc_util.hpp"
#endif

using namespace vf;

// ---------------------------------------------------------------- value description
struct InsSpec {
    int idx = 0;
    std::string name;            // raw bytes placed in inst_name[0..31] (may contain NUL + tail)
    int note_offset = 0, veloff = 0, key = 0, flags = 0, fbalg = 0, lfosens = 0;
    std::string ops;             // 28 bytes
    int don = 0, doff = 0;
};
struct BankSpec {
    std::string name;            // raw bytes placed in bank_name[0..32]
    int msb = 0, lsb = 0;
    unsigned seed = 0;           // background fill of the 128 instruments (0 = all zero)
    std::vector<InsSpec> specials;
};
struct FileSpec {
    int version = 2, lfo = 0, chip = 0, volmodel = 0;
    std::vector<BankSpec> mel, perc;
    bool is_inst = false;        // OPNI case: uses inst + is_drum
    InsSpec inst; int is_drum = 0;
};

static std::string ser(const FileSpec &f) {
    std::ostringstream o;
    if(f.is_inst) {
        o << "opni " << f.version << " " << f.is_drum << "\n";
        const InsSpec &i = f.inst;
        o << "ins 0 " << (i.name.empty() ? "-" : hex(i.name.data(), i.name.size())) << " " << i.note_offset << " " << i.veloff << " " << i.key << " " << i.flags << " "
          << i.fbalg << " " << i.lfosens << " " << hex(i.ops.data(), i.ops.size()) << " " << i.don << " " << i.doff << "\n";
        return o.str();
    }
    o << "file " << f.version << " " << f.lfo << " " << f.chip << " " << f.volmodel << " " << f.mel.size() << " " << f.perc.size() << "\n";
    for(int s = 0; s < 2; s++) for(const BankSpec &b : (s ? f.perc : f.mel)) {
        o << "bank " << (s ? "P" : "M") << " " << (b.name.empty() ? "-" : hex(b.name.data(), b.name.size())) << " " << b.msb << " " << b.lsb << " " << b.seed << " " << b.specials.size() << "\n";
        for(const InsSpec &i : b.specials)
            o << "ins " << i.idx << " " << (i.name.empty() ? "-" : hex(i.name.data(), i.name.size())) << " " << i.note_offset << " " << i.veloff << " " << i.key << " " << i.flags << " "
              << i.fbalg << " " << i.lfosens << " " << hex(i.ops.data(), i.ops.size()) << " " << i.don << " " << i.doff << "\n";
    }
    return o.str();
}
static InsSpec read_ins(std::istringstream &in) {
    InsSpec i; std::string nm, ops;
    in >> i.idx >> nm >> i.note_offset >> i.veloff >> i.key >> i.flags >> i.fbalg >> i.lfosens >> ops >> i.don >> i.doff;
    if(nm != "-") { auto v = unhex(nm); i.name.assign(v.begin(), v.end()); }
    auto v = unhex(ops); i.ops.assign(v.begin(), v.end()); i.ops.resize(28, 0);
    return i;
}
static FileSpec deser(const std::string &s) {
    FileSpec f; std::istringstream in(s); std::string w;
    BankSpec *cur = nullptr;
    while(in >> w) {
        if(w == "file") { size_t nm, np; in >> f.version >> f.lfo >> f.chip >> f.volmodel >> nm >> np; }
        else if(w == "opni") { f.is_inst = true; in >> f.version >> f.is_drum; }
        else if(w == "bank") {
            std::string kind, nm; size_t ns; BankSpec b;
            in >> kind >> nm >> b.msb >> b.lsb >> b.seed >> ns;
            if(nm != "-") { auto v = unhex(nm); b.name.assign(v.begin(), v.end()); }
            auto &vec = (kind == "P") ? f.perc : f.mel; vec.push_back(b); cur = &vec.back();
        } else if(w == "ins") { InsSpec i = read_ins(in); if(f.is_inst) f.inst = i; else if(cur) cur->specials.push_back(i); }
    }
    return f;
}

static void fill_ins(WOPNInstrument &w, const InsSpec &i) {
    memset(&w, 0, sizeof w);
    memcpy(w.inst_name, i.name.data(), std::min<size_t>(32, i.name.size()));
    w.note_offset = (int16_t)i.note_offset; w.midi_velocity_offset = (int8_t)i.veloff; w.percussion_key_number = (uint8_t)i.key;
    w.inst_flags = (uint8_t)i.flags; w.fbalg = (uint8_t)i.fbalg; w.lfosens = (uint8_t)i.lfosens;
    for(int op = 0; op < 4; op++) {
        const uint8_t *p = (const uint8_t *)i.ops.data() + op * 7;
        w.operators[op].dtfm_30 = p[0]; w.operators[op].level_40 = p[1]; w.operators[op].rsatk_50 = p[2]; w.operators[op].amdecay1_60 = p[3];
        w.operators[op].decay2_70 = p[4]; w.operators[op].susrel_80 = p[5]; w.operators[op].ssgeg_90 = p[6];
    }
    w.delay_on_ms = (uint16_t)i.don; w.delay_off_ms = (uint16_t)i.doff;
}
static void seed_fill(WOPNBank &b, unsigned seed) {
    if(!seed) return;
    unsigned s = seed;
    auto nx = [&]() { s = s * 1664525u + 1013904223u; return (s >> 9); };
    for(int k = 0; k < 128; k++) {
        WOPNInstrument &w = b.ins[k];
        int nl = nx() % 32;
        for(int c = 0; c < nl; c++) w.inst_name[c] = (char)(1 + nx() % 255);
        w.note_offset = (int16_t)nx(); w.midi_velocity_offset = (int8_t)nx(); w.percussion_key_number = (uint8_t)nx();
        w.inst_flags = (uint8_t)(nx() & 3); w.fbalg = (uint8_t)nx(); w.lfosens = (uint8_t)nx();
        for(int op = 0; op < 4; op++) { w.operators[op].dtfm_30 = (uint8_t)nx(); w.operators[op].level_40 = (uint8_t)nx(); w.operators[op].rsatk_50 = (uint8_t)nx();
            w.operators[op].amdecay1_60 = (uint8_t)nx(); w.operators[op].decay2_70 = (uint8_t)nx(); w.operators[op].susrel_80 = (uint8_t)nx(); w.operators[op].ssgeg_90 = (uint8_t)nx(); }
        w.delay_on_ms = (nx() % 5 == 0) ? 0 : (uint16_t)nx(); w.delay_off_ms = (nx() % 5 == 0) ? 0 : (uint16_t)nx();
    }
}
struct FileDel { void operator()(WOPNFile *f) const { WOPN_Free(f); } };
typedef std::unique_ptr<WOPNFile, FileDel> FilePtr;

static FilePtr build(const FileSpec &f) {
    FilePtr x(WOPN_Init((uint16_t)f.mel.size(), (uint16_t)f.perc.size()));
    VCHECK(x.get(), "WOPN_Init failed");
    x->version = (uint16_t)f.version; x->lfo_freq = (uint8_t)f.lfo; x->chip_type = (uint8_t)f.chip; x->volume_model = (uint8_t)f.volmodel;
    for(int s = 0; s < 2; s++) {
        const std::vector<BankSpec> &v = s ? f.perc : f.mel;
        WOPNBank *arr = s ? x->banks_percussive : x->banks_melodic;
        for(size_t i = 0; i < v.size(); i++) {
            WOPNBank &b = arr[i];
            memset(&b, 0, sizeof b);
            memcpy(b.bank_name, v[i].name.data(), std::min<size_t>(33, v[i].name.size()));
            b.bank_midi_msb = (uint8_t)v[i].msb; b.bank_midi_lsb = (uint8_t)v[i].lsb;
            seed_fill(b, v[i].seed);
            for(const InsSpec &is : v[i].specials) fill_ins(b.ins[is.idx & 127], is);
        }
    }
    return x;
}

// ---------------------------------------------------------------- the carried projection (from docs/wopn specification.txt)
static std::string cstr(const char *p, size_t maxlen) { size_t n = 0; while(n < maxlen && p[n]) n++; return std::string(p, n); }

static void expect_ins(const WOPNInstrument &got, const WOPNInstrument &src, int v, bool bank_context, const char *where, int bi, int k) {
    std::string en = cstr(src.inst_name, 31), gn = cstr(got.inst_name, 32);
    VCHECK(gn == en, "%s bank %d ins %d: name '%s' came back as '%s' (v%d)", where, bi, k, hex(en.data(), en.size()).c_str(), hex(gn.data(), gn.size()).c_str(), v);
    VCHECK(got.note_offset == src.note_offset, "%s bank %d ins %d: note_offset %d -> %d (v%d)", where, bi, k, src.note_offset, got.note_offset, v);
    VCHECK(got.percussion_key_number == src.percussion_key_number, "%s bank %d ins %d: percussion key %d -> %d", where, bi, k, src.percussion_key_number, got.percussion_key_number);
    VCHECK(got.fbalg == src.fbalg && got.lfosens == src.lfosens, "%s bank %d ins %d: fbalg/lfosens %d/%d -> %d/%d", where, bi, k, src.fbalg, src.lfosens, got.fbalg, got.lfosens);
    for(int op = 0; op < 4; op++)
        VCHECK(memcmp(&got.operators[op], &src.operators[op], sizeof(WOPNOperator)) == 0, "%s bank %d ins %d: operator %d bytes differ (v%d)", where, bi, k, op, v);
    VCHECK(got.midi_velocity_offset == 0, "%s bank %d ins %d: velocity offset is not carried by the format but read back %d", where, bi, k, got.midi_velocity_offset);
    if(bank_context) {
        if(v >= 2) {
            bool blank = (src.inst_flags & WOPN_Ins_IsBlank) || (src.delay_on_ms == 0 && src.delay_off_ms == 0);
            VCHECK(((got.inst_flags & WOPN_Ins_IsBlank) != 0) == blank, "%s bank %d ins %d: blank flag expected %d got flags %d (v%d)", where, bi, k, (int)blank, got.inst_flags, v);
            VCHECK((got.inst_flags & ~WOPN_Ins_IsBlank) == 0, "%s bank %d ins %d: flags %d carry bits the format does not have", where, bi, k, got.inst_flags);
            unsigned edon = blank ? 0 : src.delay_on_ms, edoff = blank ? 0 : src.delay_off_ms;
            VCHECK(got.delay_on_ms == edon && got.delay_off_ms == edoff, "%s bank %d ins %d: delays %u/%u expected %u/%u (v%d)", where, bi, k, got.delay_on_ms, got.delay_off_ms, edon, edoff, v);
        } else {
            VCHECK(got.inst_flags == 0 && got.delay_on_ms == 0 && got.delay_off_ms == 0, "%s bank %d ins %d: v1 carries no flags/delays but got %d %u/%u", where, bi, k, got.inst_flags, got.delay_on_ms, got.delay_off_ms);
        }
    }
}

static size_t needed_bank_bytes(const WOPNFile &x, int v) {
    size_t nb = (size_t)x.banks_count_melodic + x.banks_count_percussion;
    if(v >= 2) return 11 + 2 + 5 + nb * 34 + nb * 128 * 69;
    return 11 + 5 + nb * 128 * 65;
}

struct RtInfo { bool name_edge = false, multi = false, blank = false; };

// One heap block of exactly n bytes (ASan red zones are the guard).
struct Block { uint8_t *p; size_t n; explicit Block(size_t n_) : p(new uint8_t[n_ ? n_ : 1]), n(n_) { if(!n_) { delete[] p; p = new uint8_t[0]; } } ~Block() { delete[] p; } };

static FilePtr load_exact(const uint8_t *data, size_t n, int *err) {
    Block b(n); if(n) memcpy(b.p, data, n);
    *err = 0;
    return FilePtr(WOPN_LoadBankFromMem(b.p, n, err));
}

static void check_bank_value(WOPNFile &x, RtInfo &ri, const std::vector<size_t> &extra_sizes) {
    int versions[3] = {2, 1, 0};
    for(int vi = 0; vi < 3; vi++) {
        int vparam = versions[vi], v = vparam == 0 ? 2 : vparam;
        size_t size = WOPN_CalculateBankFileSize(&x, (uint16_t)vparam);
        size_t needed = needed_bank_bytes(x, v);
        VCHECK(size >= needed, "size calculator reports %zu bytes for v%d but the format needs %zu", size, v, needed);
        // (1) exact-size destination: must succeed, ASan guards the end
        Block dst(size); memset(dst.p, 0xEE, size);
        int r = WOPN_SaveBankToMem(&x, dst.p, size, (uint16_t)vparam, 0);
        VCHECK(r == WOPN_ERR_OK, "save into a buffer of the calculated size (%zu, v%d) failed with %d", size, v, r);
        // (2) oversized destination with canary behind `size`
        {
            Block big(size + 64); memset(big.p, 0xA5, size + 64);
            r = WOPN_SaveBankToMem(&x, big.p, size, (uint16_t)vparam, 0);
            VCHECK(r == WOPN_ERR_OK, "save (canary variant) failed with %d", r);
            for(size_t i = size; i < size + 64; i++) VCHECK(big.p[i] == 0xA5, "byte %zu beyond the reported size %zu was written (v%d)", i, size, v);
            VCHECK(memcmp(big.p, dst.p, needed) == 0, "two saves of the same value differ");
        }
        // (3) too-small destinations are refused (and never overrun: exact heap blocks)
        std::vector<size_t> smalls = {0, 1, 10, 11, 12, 13, 15, 16, 17, 18, 19, 20, needed - 1, needed / 2, needed - 69, needed - 128 * 65};
        for(size_t e : extra_sizes) smalls.push_back(e % needed);
        for(size_t n : smalls) {
            if(n >= needed) continue;
            Block sm(n);
            r = WOPN_SaveBankToMem(&x, sm.p, n, (uint16_t)vparam, 0);
            VCHECK(r != WOPN_ERR_OK, "destination of %zu bytes accepted although v%d needs %zu", n, v, needed);
        }
        // (4) reload and compare with the carried projection
        int err = 0;
        FilePtr y = load_exact(dst.p, size, &err);
        VCHECK(y.get(), "own output (v%d, %zu bytes) rejected by the loader with error %d", v, size, err);
        VCHECK(y->version == v, "version %d came back as %d", v, y->version);
        VCHECK(y->lfo_freq == (x.lfo_freq & 0x0F), "lfo_freq %d -> %d", x.lfo_freq, y->lfo_freq);
        VCHECK(y->chip_type == (v >= 2 ? (x.chip_type & 1) : 0), "chip_type %d -> %d (v%d)", x.chip_type, y->chip_type, v);
        VCHECK(y->volume_model == 0, "volume_model is never written but came back %d", y->volume_model);
        VCHECK(y->banks_count_melodic == x.banks_count_melodic && y->banks_count_percussion == x.banks_count_percussion, "bank counts %d/%d -> %d/%d",
               x.banks_count_melodic, x.banks_count_percussion, y->banks_count_melodic, y->banks_count_percussion);
        for(int s = 0; s < 2; s++) {
            int cnt = s ? x.banks_count_percussion : x.banks_count_melodic;
            WOPNBank *xb = s ? x.banks_percussive : x.banks_melodic, *yb = s ? y->banks_percussive : y->banks_melodic;
            for(int i = 0; i < cnt; i++) {
                if(v >= 2) {
                    std::string en = cstr(xb[i].bank_name, 32), gn = cstr(yb[i].bank_name, 33);
                    VCHECK(en == gn, "%s bank %d: name %s came back as %s", s ? "perc" : "mel", i, hex(en.data(), en.size()).c_str(), hex(gn.data(), gn.size()).c_str());
                    VCHECK(yb[i].bank_midi_msb == xb[i].bank_midi_msb && yb[i].bank_midi_lsb == xb[i].bank_midi_lsb, "%s bank %d: msb/lsb %d/%d -> %d/%d", s ? "perc" : "mel", i,
                           xb[i].bank_midi_msb, xb[i].bank_midi_lsb, yb[i].bank_midi_msb, yb[i].bank_midi_lsb);
                    if(en.size() >= 31) ri.name_edge = true;
                } else {
                    VCHECK(yb[i].bank_name[0] == 0 && yb[i].bank_midi_msb == 0 && yb[i].bank_midi_lsb == 0, "v1 carries no bank meta-data but got name/msb/lsb");
                }
                for(int k = 0; k < 128; k++) {
                    expect_ins(yb[i].ins[k], xb[i].ins[k], v, true, s ? "perc" : "mel", i, k);
                    if(cstr(xb[i].ins[k].inst_name, 32).size() >= 30) ri.name_edge = true;
                    if(yb[i].ins[k].inst_flags & WOPN_Ins_IsBlank) ri.blank = true;
                }
            }
        }
        if(x.banks_count_melodic + x.banks_count_percussion > 2) ri.multi = true;
        // (5) the loaded value is a fixed point of save-then-load in its own version
        size_t size2 = WOPN_CalculateBankFileSize(y.get(), y->version);
        Block d2(size2);
        r = WOPN_SaveBankToMem(y.get(), d2.p, size2, y->version, 0);
        VCHECK(r == WOPN_ERR_OK, "re-save of the loaded value failed with %d", r);
        FilePtr y2 = load_exact(d2.p, size2, &err);
        VCHECK(y2.get(), "re-load failed with %d", err);
        VCHECK(WOPN_BanksCmp(y.get(), y2.get()) == 1, "save-then-load of a loaded v%d value is not the identity", v);
    }
}

static void check_inst_value(OPNIFile &x, const std::vector<size_t> &extra_sizes) {
    int versions[3] = {2, 1, 0};
    for(int vi = 0; vi < 3; vi++) {
        int vparam = versions[vi], v = vparam == 0 ? 2 : vparam;
        size_t size = WOPN_CalculateInstFileSize(&x, (uint16_t)vparam);
        size_t needed = (v >= 2) ? 11 + 2 + 1 + 65 : 11 + 1 + 65;
        VCHECK(size >= needed, "instrument size calculator reports %zu for v%d, format needs %zu", size, v, needed);
        Block dst(size); memset(dst.p, 0xEE, size);
        int r = WOPN_SaveInstToMem(&x, dst.p, size, (uint16_t)vparam);
        VCHECK(r == WOPN_ERR_OK, "instrument save into calculated size %zu (v%d) failed with %d", size, v, r);
        {
            Block big(size + 64); memset(big.p, 0xA5, size + 64);
            r = WOPN_SaveInstToMem(&x, big.p, size, (uint16_t)vparam);
            VCHECK(r == WOPN_ERR_OK, "instrument save (canary) failed");
            for(size_t i = size; i < size + 64; i++) VCHECK(big.p[i] == 0xA5, "instrument save wrote byte %zu beyond reported size %zu", i, size);
        }
        std::vector<size_t> smalls = {0, 1, 10, 11, 12, 13, 14, needed - 1, needed - 2, needed / 2};
        for(size_t e : extra_sizes) smalls.push_back(e % needed);
        for(size_t n : smalls) {
            if(n >= needed) continue;
            Block sm(n);
            r = WOPN_SaveInstToMem(&x, sm.p, n, (uint16_t)vparam);
            VCHECK(r != WOPN_ERR_OK, "instrument destination of %zu bytes accepted although v%d needs %zu", n, v, needed);
        }
        OPNIFile y; memset(&y, 0, sizeof y);
        { Block in(size); memcpy(in.p, dst.p, size); r = WOPN_LoadInstFromMem(&y, in.p, size); }
        VCHECK(r == WOPN_ERR_OK, "own instrument output rejected with %d", r);
        VCHECK(y.version == v, "instrument version %d -> %d", v, y.version);
        VCHECK(y.is_drum == x.is_drum, "is_drum %d -> %d", x.is_drum, y.is_drum);
        expect_ins(y.inst, x.inst, v, false, "opni", 0, 0);
        // fixed point
        Block d2(size);
        r = WOPN_SaveInstToMem(&y, d2.p, size, (uint16_t)v);
        VCHECK(r == WOPN_ERR_OK, "re-saving the loaded instrument failed");
        OPNIFile y2; memset(&y2, 0, sizeof y2);
        { Block in(size); memcpy(in.p, d2.p, size); r = WOPN_LoadInstFromMem(&y2, in.p, size); }
        VCHECK(r == WOPN_ERR_OK && y2.version == y.version && y2.is_drum == y.is_drum, "instrument fixed point: header differs");
        expect_ins(y2.inst, y.inst, v, false, "opni-fixpoint", 0, 0);
    }
}

static void run_spec(const FileSpec &f, RtInfo &ri, const std::vector<size_t> &extra) {
    if(f.is_inst) {
        OPNIFile x; memset(&x, 0, sizeof x);
        x.version = (uint16_t)f.version; x.is_drum = (uint8_t)f.is_drum; fill_ins(x.inst, f.inst);
        check_inst_value(x, extra);
        if(cstr(x.inst.inst_name, 32).size() >= 30) ri.name_edge = true;
        return;
    }
    FilePtr x = build(f);
    check_bank_value(*x, ri, extra);
}

// ---------------------------------------------------------------- accepted byte strings (used by the fuzz target and by replay of fuzz artifacts)
static int g_accept_class = 0;
static void check_bytes(const uint8_t *data, size_t n) {
    g_accept_class = 0;
    // bank loader
    int err = -1;
    FilePtr y = load_exact(data, n, &err);
    if(!y) {
        VCHECK(err >= WOPN_ERR_BAD_MAGIC && err <= WOPN_ERR_NULL_POINTER, "bank loader returned NULL with undefined error code %d", err);
    } else {
        g_accept_class |= 1;
        int v = y->version;
        int vparam = v; // saving with the value's own version (0 is the API's spelling of 'latest')
        size_t size = WOPN_CalculateBankFileSize(y.get(), (uint16_t)vparam);
        Block dst(size);
        int r = WOPN_SaveBankToMem(y.get(), dst.p, size, (uint16_t)vparam, 0);
        VCHECK(r == WOPN_ERR_OK, "accepted bank (version %d) cannot be saved into the calculated size %zu: %d", v, size, r);
        int e2 = 0;
        FilePtr y2 = load_exact(dst.p, size, &e2);
        VCHECK(y2.get(), "saved form of an accepted bank is rejected (%d)", e2);
        if(v == 2) {
            VCHECK(WOPN_BanksCmp(y.get(), y2.get()) == 1, "save-then-load of an accepted v2 bank is not the identity");
        } else {
            // v1 (and the malformed-but-accepted 'version 0/1 with v2 magic'): identity on everything the v1 format carries
            VCHECK(y2->banks_count_melodic == y->banks_count_melodic && y2->banks_count_percussion == y->banks_count_percussion, "bank counts changed in save-then-load");
            VCHECK(y2->lfo_freq == y->lfo_freq, "lfo changed in save-then-load");
            for(int s = 0; s < 2; s++) {
                int cnt = s ? y->banks_count_percussion : y->banks_count_melodic;
                WOPNBank *a = s ? y->banks_percussive : y->banks_melodic, *b = s ? y2->banks_percussive : y2->banks_melodic;
                for(int i = 0; i < cnt; i++) for(int k = 0; k < 128; k++) expect_ins(b[i].ins[k], a[i].ins[k], 1, false, "v1-rt", i, k);
            }
            if(v == 1) VCHECK(y2->version == 1, "v1 value re-loaded as version %d", y2->version);
        }
        // too-small destination for an accepted value
        if(size > 0) { Block sm(size / 2); r = WOPN_SaveBankToMem(y.get(), sm.p, size / 2, (uint16_t)vparam, 0); VCHECK(r != WOPN_ERR_OK || size / 2 >= needed_bank_bytes(*y, v == 1 ? 1 : 2), "half-size destination accepted"); }
    }
    // instrument loader
    OPNIFile oi; memset(&oi, 0, sizeof oi);
    int r;
    { Block in(n); if(n) memcpy(in.p, data, n); r = WOPN_LoadInstFromMem(&oi, in.p, n); }
    VCHECK(r >= WOPN_ERR_OK && r <= WOPN_ERR_NULL_POINTER, "instrument loader returned undefined code %d", r);
    if(r == WOPN_ERR_OK) {
        g_accept_class |= 2;
        size_t size = WOPN_CalculateInstFileSize(&oi, oi.version);
        Block dst(size);
        int r2 = WOPN_SaveInstToMem(&oi, dst.p, size, oi.version);
        VCHECK(r2 == WOPN_ERR_OK, "accepted instrument cannot be saved into the calculated size: %d", r2);
        OPNIFile o2; memset(&o2, 0, sizeof o2);
        { Block in(size); memcpy(in.p, dst.p, size); r2 = WOPN_LoadInstFromMem(&o2, in.p, size); }
        VCHECK(r2 == WOPN_ERR_OK, "saved form of an accepted instrument is rejected: %d", r2);
        VCHECK(o2.is_drum == oi.is_drum, "is_drum changed");
        expect_ins(o2.inst, oi.inst, 2, false, "opni-rt", 0, 0);
        if(oi.version >= 1) VCHECK(o2.version == oi.version, "instrument version %d -> %d", oi.version, o2.version);
    }
}

#ifdef VERIF_FUZZ
extern "C" int LLVMFuzzerInitialize(int *argc, char ***argv) { return fuzz_init(argc, argv); }
extern "C" int LLVMFuzzerTestOneInput(const uint8_t *data, size_t size) {
    try { check_bytes(data, size); }
    catch(const Fail &f) { fuzz_fail(f.msg); }
    Stats &st = ctx().stats;
    bool nt = g_accept_class != 0;
    st.note_case_hash(fnv(data, size), nt, nt && st.samples.size() < 3 ? ("accepted(" + std::to_string(g_accept_class) + ") " + hex(data, std::min<size_t>(size, 48)) + (size > 48 ? "..." : "") + " len=" + std::to_string(size)) : "");
    if(g_accept_class & 1) st.label("bank_accepted"); if(g_accept_class & 2) st.label("inst_accepted"); if(!g_accept_class) st.label("rejected");
    return 0;
}
#else
// ---------------------------------------------------------------- generators
static rc::Gen<std::string> genName(int maxlen) {
    using namespace rc;
    // lengths at the edges of the field; optional junk after the terminator
    return gen::mapcat(gen::tuple(gen::weightedElement<int>({{3, 0}, {2, 1}, {2, maxlen - 1}, {3, maxlen}, {1, maxlen / 2}}), gen::inRange(0, 3)),
                       [maxlen](std::tuple<int, int> t) {
                           int len = std::get<0>(t), junk = std::get<1>(t);
                           return gen::map(gen::tuple(gen::container<std::string>((size_t)len, gen::map(rng<int>(1, 255), [](int c) { return (char)c; })),
                                                      gen::container<std::string>((size_t)(junk ? 3 : 0), gen::map(rng<int>(1, 255), [](int c) { return (char)c; }))),
                                           [](std::tuple<std::string, std::string> p) {
                                               std::string s = std::get<0>(p);
                                               if(!std::get<1>(p).empty()) { s += '\0'; s += std::get<1>(p); }
                                               return s;
                                           });
                       });
}
static rc::Gen<InsSpec> genIns() {
    using namespace rc;
    return gen::map(gen::tuple(rng<int>(0, 127), genName(31),
                               gen::tuple(biased<int>({-32768, -12000, -128, -1, 0, 1, 127, 12290, 32767}, -32768, 32767), rng<int>(-128, 127), rng<int>(0, 255), rng<int>(0, 3), rng<int>(0, 255), rng<int>(0, 255)),
                               gen::container<std::string>(28, gen::map(biased<int>({0, 255, 127, 128}, 0, 255), [](int c) { return (char)c; })),
                               biased<int>({0, 1, 65535, 40000}, 0, 65535), biased<int>({0, 1, 65535}, 0, 65535)),
                    [](std::tuple<int, std::string, std::tuple<int, int, int, int, int, int>, std::string, int, int> t) {
                        InsSpec i; i.idx = std::get<0>(t); i.name = std::get<1>(t).substr(0, 32);
                        auto &f = std::get<2>(t);
                        i.note_offset = std::get<0>(f); i.veloff = std::get<1>(f); i.key = std::get<2>(f); i.flags = std::get<3>(f); i.fbalg = std::get<4>(f); i.lfosens = std::get<5>(f);
                        i.ops = std::get<3>(t); i.don = std::get<4>(t); i.doff = std::get<5>(t);
                        return i;
                    });
}
static rc::Gen<BankSpec> genBank() {
    using namespace rc;
    return gen::map(gen::tuple(genName(32), rng<int>(0, 255), rng<int>(0, 255), gen::oneOf(gen::just(0u), gen::map(rng<int>(1, 1 << 30), [](int v) { return (unsigned)v; })),
                               gen::resize(4, gen::container<std::vector<InsSpec>>(genIns()))),
                    [](std::tuple<std::string, int, int, unsigned, std::vector<InsSpec>> t) {
                        BankSpec b; b.name = std::get<0>(t).substr(0, 33); b.msb = std::get<1>(t); b.lsb = std::get<2>(t); b.seed = std::get<3>(t); b.specials = std::get<4>(t);
                        return b;
                    });
}
static rc::Gen<std::vector<BankSpec>> genBanks(int maxn) {
    using namespace rc;
    // counts: mostly small, but regularly beyond 7 (where 128*69*count no longer fits 16 bits) up to the format's 64
    return gen::mapcat(gen::oneOf(gen::weightedElement<int>({{5, 1}, {3, 2}, {2, 3}, {1, maxn}, {1, std::min(8, maxn)}}), rng<int>(1, maxn)),
                       [](int n) { return gen::container<std::vector<BankSpec>>((size_t)n, genBank()); });
}
static rc::Gen<FileSpec> genFile(int maxbanks) {
    using namespace rc;
    auto bankFile = gen::map(gen::tuple(gen::element(1, 2), rng<int>(0, 255), rng<int>(0, 255), rng<int>(0, 255), genBanks(maxbanks), genBanks(maxbanks)),
                             [](std::tuple<int, int, int, int, std::vector<BankSpec>, std::vector<BankSpec>> t) {
                                 FileSpec f; f.version = std::get<0>(t); f.lfo = std::get<1>(t); f.chip = std::get<2>(t); f.volmodel = std::get<3>(t); f.mel = std::get<4>(t); f.perc = std::get<5>(t);
                                 return f;
                             });
    auto instFile = gen::map(gen::tuple(gen::element(1, 2), rng<int>(0, 255), genIns()), [](std::tuple<int, int, InsSpec> t) {
        FileSpec f; f.is_inst = true; f.version = std::get<0>(t); f.is_drum = std::get<1>(t); f.inst = std::get<2>(t); return f; });
    return gen::weightedOneOf<FileSpec>({{3, bankFile}, {1, instFile}});
}
void showValue(const FileSpec &f, std::ostream &os) { os << ser(f); }

int main(int argc, char **argv) {
    parse_args(argc, argv);
    Ctx &c = ctx();
    if(c.mode == "replay") {
        return replay_main([](const std::string &s) {
            if(s.rfind("file ", 0) == 0 || s.rfind("opni ", 0) == 0) { RtInfo ri; run_spec(deser(s), ri, {}); }
            else check_bytes((const uint8_t *)s.data(), s.size());
        });
    }
    if(c.mode == "seeds") {
        // writes a few small valid images for the fuzz stage's starting corpus
        std::string out = c.opts("out", ".");
        for(int v = 1; v <= 2; v++) {
            FileSpec f; f.version = v; f.lfo = 9; f.chip = 1;
            BankSpec b; b.name = "seed"; b.msb = 1; b.lsb = 2; b.seed = 77; f.mel.push_back(b); b.seed = 0; f.perc.push_back(b);
            FilePtr x = build(f);
            size_t n = WOPN_CalculateBankFileSize(x.get(), (uint16_t)v); std::string buf(n, '\0');
            WOPN_SaveBankToMem(x.get(), &buf[0], n, (uint16_t)v, 0);
            FILE *fo = fopen((out + "/bank_v" + std::to_string(v) + ".wopn").c_str(), "wb"); fwrite(buf.data(), 1, n, fo); fclose(fo);
            OPNIFile oi; memset(&oi, 0, sizeof oi); oi.version = (uint16_t)v; oi.is_drum = 1; oi.inst = x->banks_melodic[0].ins[5];
            n = WOPN_CalculateInstFileSize(&oi, (uint16_t)v); buf.assign(n, '\0'); WOPN_SaveInstToMem(&oi, &buf[0], n, (uint16_t)v);
            fo = fopen((out + "/inst_v" + std::to_string(v) + ".opni").c_str(), "wb"); fwrite(buf.data(), 1, n, fo); fclose(fo);
        }
        return 0;
    }
    int maxbanks = (int)c.opt("maxbanks", 6);
    pbt("c15_value_roundtrip", c.n, 50, [maxbanks]() {
        FileSpec f = *genFile(maxbanks);
        std::vector<size_t> extra = *rc::gen::container<std::vector<size_t>>(3, rc::gen::map(rng<int>(0, 1 << 30), [](int v) { return (size_t)v; }));
        std::string s = ser(f);
        run_case(s, [&] {
            RtInfo ri; run_spec(f, ri, extra);
            bool nt = ri.name_edge || ri.multi || ri.blank;
            ctx().stats.note_case(s, nt);
            if(ri.name_edge) ctx().stats.label("name_at_field_edge");
            if(ri.multi) ctx().stats.label("more_than_2_banks");
            if(ri.blank) ctx().stats.label("blank_entry");
            ctx().stats.label(f.is_inst ? "opni" : "wopn");
        });
    });
    return finish();
}
#endif
